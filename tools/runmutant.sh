#!/bin/sh
# runmutant.sh PATCH PROP [extra check args]: apply PATCH to a scratch copy of /repo's working tree, optionally run
# the baseline tests there (TESTS=1), run ./check PROP against it, remove the copy. Exit status = check's.
patch=$1; prop=$2; shift 2
d=$(mktemp -d /tmp/mut_XXXXXX)
cp -r /repo/. "$d"/ && rm -rf "$d/.git"
( cd "$d" && git init -q . >/dev/null 2>&1; git apply --whitespace=nowarn "$patch" ) || { echo "PATCH FAILED"; rm -rf "$d"; exit 3; }
if [ -n "$TESTS" ]; then ( cd "$d" && timeout 600 /venv/bin/python -m pytest -q -p no:cacheprovider -x tests 2>&1 | tail -1 ); fi
cd /verif && SQ_REPO="$d" timeout ${TMO:-900} ./check "$prop" "$@"; st=$?
rm -rf "$d"
exit $st
