#!/usr/bin/env python3
"""check_render.py [N]: on the tree in /repo, every styled rendering of a generated program must parse to the same
syntax tree as its canonical (fully parenthesised) rendering. Validates the renderer's reading of the operator table."""
import os, sys
sys.path.insert(0, os.path.dirname(os.path.dirname(os.path.abspath(__file__))))
from sim import boot
boot.boot()
from sim import lang, gen
from sim.proggen import ProgGen
from sim.rng import RealRandom


def dump(op):
    if isinstance(op, list):
        return [dump(x) for x in op]
    if isinstance(op, tuple):
        return tuple(dump(x) for x in op)
    if hasattr(op, '__dict__') and type(op).__module__.startswith('smartquery'):
        return (type(op).__name__, sorted((k, dump(v)) for k, v in vars(op).items()))
    return repr(op)


n = int(sys.argv[1]) if len(sys.argv) > 1 else 3000
bad = 0
p = boot.fresh_parser()
for i in range(n):
    r = RealRandom(i + 1)
    g = ProgGen(r, {'a': 'num', 'b': 'num', 'l': 'list', 'd': 'dict', 's': 'str'}, max_depth=r.choice([2, 3, 4]), allow_host=['t', 'call'], probes=r.random() < 0.3, illtyped=0.05)
    prog = g.program(n_stmts=r.randint(1, 4))
    try:
        canon_src = lang.render(prog, 0)
        want = dump(p.parse(canon_src))
    except Exception as e:
        continue
    for k in range(6):
        st = r.randrange(1, 2 ** 31)
        src = lang.render(prog, st)
        try:
            got = dump(p.parse(src.rstrip()))
        except Exception as e:
            got = 'ERR %r' % (e,)
        if got != want:
            bad += 1
            if bad <= 5:
                print('MISMATCH style=%d\n  canonical: %r\n  styled   : %r\n  %s' % (st, canon_src, src, str(got)[:300]))
print('programs=%d mismatches=%d' % (n, bad))
sys.exit(1 if bad else 0)
