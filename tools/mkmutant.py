#!/usr/bin/env python3
"""mkmutant.py NAME FILE OLD NEW [FILE OLD NEW ...]  -> /verif/mutants/NAME.patch (diff against /repo HEAD)."""
import os, shutil, subprocess, sys, tempfile
name = sys.argv[1]
triples = sys.argv[2:]
tmp = tempfile.mkdtemp(prefix='mk_', dir='/tmp')
try:
    subprocess.check_call(['git', '-C', '/repo', 'worktree', 'add', '-q', '--detach', tmp + '/w', 'HEAD'])
    for i in range(0, len(triples), 3):
        f, old, new = triples[i:i + 3]
        p = os.path.join(tmp, 'w', f)
        s = open(p).read()
        old = old.encode().decode('unicode_escape'); new = new.encode().decode('unicode_escape')
        assert s.count(old) == 1, (f, old, s.count(old))
        open(p, 'w').write(s.replace(old, new))
    d = subprocess.run(['git', '-C', tmp + '/w', 'diff'], capture_output=True, text=True).stdout
    open('/verif/mutants/%s.patch' % name, 'w').write(d)
    print(d)
finally:
    subprocess.call(['git', '-C', '/repo', 'worktree', 'remove', '--force', tmp + '/w'])
    shutil.rmtree(tmp, ignore_errors=True)
