#!/bin/sh
# soak.sh FIRST LAST [tier]: run every check with VERIF_SEED=FIRST..LAST; print one line per non-zero exit.
cd "$(dirname "$0")/.." || exit 2
tier=${3:-quick}
for s in $(seq "$1" "$2"); do
  for p in C01 C02 C03 C04 C05 C07 C09 C10 C11 C12 C13 C14 C16 C17 C18 C19; do
    out=$(VERIF_SEED=$s timeout 3000 ./check $p --tier "$tier" 2>&1); st=$?
    if [ $st -ne 0 ]; then echo "SOAK-FAIL seed=$s prop=$p exit=$st"; echo "$out" | grep -v KNOWN-FINDING | tail -6; fi
  done
  echo "seed $s done"
done
