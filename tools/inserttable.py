#!/usr/bin/env python3
import subprocess, os
base = os.path.dirname(os.path.dirname(os.path.abspath(__file__)))
t = subprocess.run(['python3', os.path.join(base, 'tools', 'mktable.py')], capture_output=True, text=True).stdout
p = os.path.join(base, 'DESIGN.md')
s = open(p).read()
a = s.index('<!-- TABLE-BEGIN -->') + len('<!-- TABLE-BEGIN -->')
b = s.index('<!-- TABLE-END -->')
open(p, 'w').write(s[:a] + '\n' + t + '\n' + s[b:])
