#!/usr/bin/env python3
"""Regenerate /verif/MANIFEST.json from the table below (keeps it schema-valid at all times)."""
import json
import os

HERE = os.path.dirname(os.path.dirname(os.path.abspath(__file__)))

CHECKS = {
    'C14': dict(
        category='exploration',
        text='Seeded search over histories of container operations (one eval per op on one long-lived parser, host-owned '
             'lists/dicts), each op judged against a Python list/dict reference model: value, ParserError-vs-other '
             'class, host-visible contents; failed ops must change nothing. A clean batch is a sample of the history '
             'space (half the runs <= 5 ops so short sequences saturate), not a proof.',
        design='5/C14', technique='deterministic simulation: model-based history checking with failing-operation faults',
        note='Trusts CPython list/dict/Decimal (shared by model and system) and the reference model in sim/model.py; '
             'host dicts restricted to string keys.'),
    'C01': dict(
        category='fault_enumeration',
        text='For the last eval of every seeded history (1-3 evals over one shared names mapping, lambdas defined by '
             'earlier evals, host callbacks incl. a swallowing one and one that re-enters the parser) EVERY budget N in '
             '1..K+2 is run from an identical pre-state and compared with the unbounded twin: outcome, exact abort '
             'point (N node starts), effect log == prefix, names == independent kill at node N, monotonicity, per-call '
             'attribution of every node evaluation, default budget. Budgets are enumerated per program; programs and '
             'histories are sampled.',
        design='5/C01', technique='deterministic simulation: the op budget as an enumerated crash point (kill at the N-th operation) against an unbounded twin run',
        note='K is counted by wrappers around every Op subclass\' eval installed from /verif (not read from the VM); '
             'programs whose unbounded run exceeds 9000 operations or touches the recursion limit of the interpreter are skipped; with a swallowing host only the gate '
             'count is demanded.'),
    'C03': dict(
        category='exploration',
        text='Seeded histories of element-adding / removing / container-deriving operations on host containers of 0, 1, '
             '9998..10001 elements and on program-grown ones; at-cap atomic refusal and below-cap behaviour judged against '
             'the reference model, plus a global growth bound checked on every node evaluation result and on everything '
             'reachable from names/result; table entries the reference semantics do not know are swept over boundary containers. Six cap-bypass sites of the pinned tree are listed known findings (keyed by '
             'producing site); any other site is a violation.',
        design='5/C03', technique='deterministic simulation: boundary-state histories with the refused operation as the fault, model + growth-bound monitor',
        note='B = max(10000, longest host-supplied list/dict/str); strings are not capped; derivatives of an already '
             'oversized container are consequences, only growth beyond the largest container seen is reported.'),
    'C11': dict(
        category='exploration',
        text='Seeded histories of parse/eval/list_names on one long-lived parser with invalid sources of every '
             'constructed kind, failing programs, budget aborts, abandoned generators, asynchronous kills at sampled line '
             'events inside the package, re-entry, listings read after later calls, host calls of stored lambdas, canary programs '
             'after failed calls and interleaved names mappings; each call compared (result, exception '
             'class and message, names, probe log) with the same call in a history-free twin universe (second import of '
             'the package, module state and decimal context reset, pristine parser).',
        design='5/C11', technique='deterministic simulation: crash/abandon/kill fault injection on a long-lived parser vs a history-free twin universe',
        note='Pristine parser = deep copy of a never-used parser of the twin import (cross-checked against real '
             'constructions on a sample); a killed call works on a scratch copy of names discarded in both universes.'),
    'C17': dict(
        category='exploration',
        text='Seeded histories of parse/eval with repeated, near-duplicate and failing sources driving a parser with a '
             'simulator-owned cache (dict, prewarmed, LRU 1-4, always-evicting, write-dropping, re-entering; evictions '
             'between calls) and an uncached twin parser; host mutates returned results; names alternate; name listings (also '
             'abandoned or read later), decimal-context switches, texts nested 600-1400 levels deep, host calls of stored lambdas. Oracle: '
             'per-call equality, cached-tree snapshots never change, every entry equals an uncached parse of its key, '
             'failures never cached.',
        design='5/C17', technique='deterministic simulation: storage-node (cache) fault injection, cached world vs uncached twin world',
        note='Legal cache faults only (a cache may forget, never lie); tree identity not demanded.'),
    'C02': dict(
        category='exploration',
        text='Seeded obtain-store-reuse histories over a persistent plain-data names mapping: entries of the LIVE function '
             'table (all of them) applied to names incl. earlier results, literals, attribute-/format-like strings, builtins '
             'and lambdas, dotted %names%, signature-derived argument lists; monitor = plain-data type walk of every node '
             'evaluation result, final result and names; I/O seam = audit hook armed only while eval runs (3% of runs on a '
             'really fresh SqParser), with op-budget aborts, a host function that re-enters the parser, and lazily importable '
             'stdlib modules evicted from sys.modules for the run. The I/O seam and the history are simulation; the quantifier over all builtins x '
             'arguments is sampled by the generator.',
        design='5/C02', technique='deterministic simulation: I/O seam (audit hook) + always-on type-walk monitor over obtain-store-reuse histories',
        note='Lazy imports inside third-party/stdlib code are recorded not judged; classes exposed as builtins are left '
             'unwrapped by the monitors so that what a program can do with the class object stays visible.'),
    'C04': dict(
        category='exploration',
        text='Seeded chains of single-statement evals rewriting persistent numeric variables of every host-suppliable type '
             '(int, long int, bool, float, Decimal with exponents up to +-5000 / 40-digit coefficients): operators, compound '
             'and compound-index assignment, numeric builtins; per operation digits(result) <= max(28, 1 + widest operand), '
             '* / ** / *= return Decimal or raise, never repeat str/list; a monitor checks every numeric builtin call. Four '
             'sites (int/floor/ceil/round on a Decimal with positive exponent) are listed known findings.',
        design='5/C04', technique='deterministic simulation: chain invariant over persistent host-typed state with a builtin-call monitor',
        note='Operand-pair coverage is input generation; float results count as <= 17 digits; exponents capped so a violating tree terminates.'),
    'C05': dict(
        category='other',
        text='PARTIAL. The timeout wiring of every builtin call that reaches the regex engine is checked under a virtual '
             'clock over seeded call histories (call / method / pipe / inside lambdas, flags, adversarial and long subjects, '
             'virtual time passing inside an evaluation): every engine entry must carry 0 < timeout <= 0.1 s + 5e-6 s/char and '
             'one builtin call may be charged at most 0.25 s + 1e-5 s/char (also with engine timeouts injected, some arriving '
             'early on the wall clock, host-compiled patterns, and locks behind a seam that turns a blocking acquire of a '
             'held lock into a reported deadlock). The engine is trusted to honour timeout=; its '
             'compile phase has none (listed known finding, confirmed by a bounded real probe that cannot raise new alarms).',
        design='5/C05', technique='deterministic simulation: virtual clock behind the regex and time seams (engine stubbed for timing)',
        note='The real timeout clock is clock() inside _regex.c and cannot be put behind a Python seam: level "other".'),
    'C13': dict(
        category='exploration',
        text='Every non-mutator of the LIVE function table applied (call/method/pipe, alone and in pipelines, with pure '
             'lambdas) to lists, dicts, nested and host-supplied containers incl. a defaultdict/OrderedDict over seeded '
             'histories; a monitor snapshots (structure + identity) every argument of every builtin call before and after, '
             'and the host compares all its objects before/after each mutator-free eval.',
        design='5/C13', technique='deterministic simulation: always-on argument-snapshot monitor around every builtin, host-side before/after comparison',
        note='An index read on a host mapping whose own __missing__ stores (defaultdict) is the host type\'s doing and skipped.'),
    'C16': dict(
        category='exploration',
        text='Seeded histories of failing parse/eval/list_names calls on one parser whose failure kind is injected by '
             'construction (every listed language-level failure at many syntactic positions, incl. lambda bodies, long '
             'tokens, per-call names mappings) plus arbitrary Unicode, and scripted REPL sessions as whole programs; (a) '
             'nothing but Exceptions escapes, (b) listed failures are ParserError, (c) the REPL survives and returns 0.',
        design='5/C16', technique='deterministic simulation: by-construction failure injection on a long-lived parser and a scripted REPL session',
        note='(b) is a statement over inputs; the classification is by construction, not by a second parser.'),
    'C18': dict(
        category='exploration',
        text='Seeded histories on one parser (optionally with a parse cache): list_names over token soups and rendered '
             'programs whose identifiers are known by construction, lexical errors after k names (incl. unclosed %), '
             'generators abandoned midway, failing parses, the same text again; evals under a recording names mapping must '
             'only ask for names list_names reports (plus the implicit sugar names).',
        design='5/C18', technique='deterministic simulation: recording names mapping + generator-abandonment / stale-lexer faults, names known by construction',
        note='Lazy or eager lexing both satisfy the failure side.'),
    'C19': dict(
        category='exploration',
        text='rand() / rand(a,b) / rand(list) / shuffle(list) drawn 50-500 times per input under a scripted entropy source '
             '(seeded stream or finite extreme prefix) with the real stdlib algorithms; range, integrality, endpoint coverage '
             'for narrow ranges, membership by identity, permutation by identity, new-list and argument preservation.',
        design='5/C19', technique='deterministic simulation: entropy seam (scripted bit source under the real stdlib random algorithms)',
        note='Bounds up to 34 significant digits, host int / bool / Decimal and literal forms; which element is picked is not judged.'),
    'C07': dict(
        category='exploration',
        text='Seeded search over histories of eval calls on one parser and one persistent host names mapping; every '
             'program (type-directed generator over all operators, statement/slice forms, modelled builtins, lambdas) is '
             'judged against the executable reference model: value, ParserError-vs-other class, names afterwards, and '
             'ops charged == node evaluations counted independently. Differential sampling of the program space, not a proof.',
        design='5/C07', technique='deterministic simulation: per-operation refinement against a reference model over persistent state',
        note='Trusts sim/model.py (written from the property statements) and CPython Decimal/list/dict shared by both '
             'sides; text of stringified containers, pretty, rand/shuffle, regex builtins, *= on non-Decimal operands and '
             'nested calls between lambdas of different eval calls are unspecified (not judged); the op count itself is '
             'not predicted (two counters of the same execution are compared).'),
    'C09': dict(
        category='exploration',
        text='Seeded expression/statement shapes with host probes at the leaves; per shape all truth assignments of the '
             'lazy-feeding leaves (enumerated up to 5 such leaves, sampled above) and raising-probe fault variants; '
             'the ordered probe log, value and names must equal the reference model\'s. Samples shapes, enumerates '
             'assignments within a shape.',
        design='5/C09', technique='deterministic simulation: host probes as the only observable effects, scripted probe faults, model-predicted effect log',
        note='Trusts the order the reference model derives from the property statement; callee-name lookup order is not observable.'),
    'C10': dict(
        category='exploration',
        text='Seeded histories of evals binding the same identifier at builtin / host / parameter level with lambda '
             'calls that fail, are swallowed by a host callback or are aborted by the op budget, driven directly, by '
             'higher-order builtins and by host callbacks, incl. recursion, cross-eval lambdas and ast_names bodies; '
             'oracle = scope model (value, host names), FUNCTIONS snapshot, scope-stack depth, leak check after aborts.',
        design='5/C10', technique='deterministic simulation: fault injection (raising bodies, swallowing host, budget aborts) against a scope-stack model',
        note='Only synchronous failures are injected (an asynchronous exception inside pop_scope is outside the property); '
             'reads scope depth through VMState.names.scopes when present.'),
    'C12': dict(
        category='exploration',
        text='Seeded histories: assignments in the four forms followed by mutations through either side, by the program '
             'and by the host (objects it supplied or retained via a callback) between calls; oracle = copying '
             'reference model after every step plus identity-disjointness of the stored slot from every other root '
             'right after each assignment.',
        design='5/C12', technique='deterministic simulation: host-retained objects mutated between calls (fault), value-semantics model + object-graph disjointness',
        note='Aliasing through parameter passing, push/insert arguments and builtin results is allowed by the property and not judged.'),
}

NOT_APPLICABLE = {
    'C06': 'pure function text -> tree; no history, second party, clock, entropy or fault for a simulator to control (DESIGN.md section 6)',
    'C08': 'pure function literal/expression -> number; exact-rational input oracle, nothing to simulate (DESIGN.md section 6)',
    'C15': 'relation between two pure parses of two texts; no seam of the simulator is involved (DESIGN.md section 6)',
    'C20': 'error message is a pure function of the text; history dependence of the line counter is decided under C11 (DESIGN.md section 6)',
}

NOT_YET = 'claimed in DESIGN.md but its check is not built yet in this commit; will be registered when it exists'
ALL = ['C%02d' % i for i in range(1, 21)]


def main():
    checks = []
    for pid in sorted(CHECKS):
        c = CHECKS[pid]
        checks.append({
            'property_id': pid,
            'quick_cmd': './check %s --tier quick' % pid,
            'thorough_cmd': './check %s --tier thorough' % pid,
            'evidence_file': 'evidence/%s.json' % pid,
            'replay_cmd_template': './check --replay {path}',
            'engine': 'sim',
            'level_claimed': {'category': c['category'], 'text': c['text'], 'design_ref': 'DESIGN.md section ' + c['design']},
            'level_note': c['note'],
            'technique': c['technique'],
        })
    na = [{'property_id': k, 'reason': v} for k, v in sorted(NOT_APPLICABLE.items())]
    for pid in ALL:
        if pid not in CHECKS and pid not in NOT_APPLICABLE:
            na.append({'property_id': pid, 'reason': NOT_YET})
    na.sort(key=lambda e: e['property_id'])
    m = {
        'version': 1,
        'setup_cmd': '/venv/bin/python -c "import regex, decimal, sys; sys.path.insert(0, \'/verif\'); import sim.cli"',
        'hooks': {
            'guard': 'SMARTQUERY_VERIF',
            'enable': 'none needed: every seam is a monkeypatch applied from /verif/sim before smartquery is imported (random, regex and re, time, threading.Lock, Op.eval of every node class, FUNCTIONS entries, sys.settrace, sys.addaudithook); /repo carries no hook code',
            'baseline_off_cmd': 'cd /repo && /venv/bin/python -m pytest -ra -q -p no:cacheprovider --timeout=900 --continue-on-collection-errors',
            'source_commits': [],
            'add_only': True,
        },
        'engines': [{'name': 'sim', 'path': 'sim/', 'serves_properties': sorted(CHECKS),
                     'kind_free_text': 'deterministic simulator in Python: seeded scheduler of public calls, host/cache/entropy/clock seams, fault injection, reference model and twin-world oracles, ddmin shrinking, replay files'}],
        'checks': checks,
        'not_applicable': na,
        'notes': 'Exit codes: 0 held / 1 VIOLATION / 2 HARNESS-ERROR. Known findings: known_findings.json. Fix commits in /repo are listed there as fixed: entries.',
    }
    with open(os.path.join(HERE, 'MANIFEST.json'), 'w') as f:
        json.dump(m, f, indent=1)
        f.write('\n')


if __name__ == '__main__':
    main()
