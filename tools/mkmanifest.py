#!/usr/bin/env python3
"""Regenerate /verif/MANIFEST.json from the table below (keeps it schema-valid at all times)."""
import json
import os

HERE = os.path.dirname(os.path.dirname(os.path.abspath(__file__)))

CHECKS = {
    'C14': dict(
        category='exploration',
        text='Seeded search over histories of container operations (one eval per op on one long-lived parser, host-owned '
             'lists/dicts), each op judged against a Python list/dict reference model: value, ParserError-vs-other '
             'class, host-visible contents; failed ops must change nothing. A clean batch is a sample of the history '
             'space (half the runs <= 5 ops so short sequences saturate), not a proof.',
        design='5/C14', technique='deterministic simulation: model-based history checking with failing-operation faults',
        note='Trusts CPython list/dict/Decimal (shared by model and system) and the reference model in sim/model.py; '
             'host dicts restricted to string keys.'),
}

NOT_APPLICABLE = {
    'C06': 'pure function text -> tree; no history, second party, clock, entropy or fault for a simulator to control (DESIGN.md section 6)',
    'C08': 'pure function literal/expression -> number; exact-rational input oracle, nothing to simulate (DESIGN.md section 6)',
    'C15': 'relation between two pure parses of two texts; no seam of the simulator is involved (DESIGN.md section 6)',
    'C20': 'error message is a pure function of the text; history dependence of the line counter is decided under C11 (DESIGN.md section 6)',
}

NOT_YET = 'claimed in DESIGN.md but its check is not built yet in this commit; will be registered when it exists'
ALL = ['C%02d' % i for i in range(1, 21)]


def main():
    checks = []
    for pid in sorted(CHECKS):
        c = CHECKS[pid]
        checks.append({
            'property_id': pid,
            'quick_cmd': './check %s --tier quick' % pid,
            'thorough_cmd': './check %s --tier thorough' % pid,
            'evidence_file': 'evidence/%s.json' % pid,
            'replay_cmd_template': './check --replay {path}',
            'engine': 'sim',
            'level_claimed': {'category': c['category'], 'text': c['text'], 'design_ref': 'DESIGN.md section ' + c['design']},
            'level_note': c['note'],
            'technique': c['technique'],
        })
    na = [{'property_id': k, 'reason': v} for k, v in sorted(NOT_APPLICABLE.items())]
    for pid in ALL:
        if pid not in CHECKS and pid not in NOT_APPLICABLE:
            na.append({'property_id': pid, 'reason': NOT_YET})
    na.sort(key=lambda e: e['property_id'])
    m = {
        'version': 1,
        'setup_cmd': '/venv/bin/python -c "import regex, decimal, sys; sys.path.insert(0, \'/verif\'); import sim.cli"',
        'hooks': {
            'guard': 'SMARTQUERY_VERIF',
            'enable': 'none needed: every seam is a monkeypatch applied from /verif/sim before smartquery is imported (random, regex, Op.eval of every node class, FUNCTIONS entries, sys.settrace, sys.addaudithook); /repo carries no hook code',
            'baseline_off_cmd': 'cd /repo && /venv/bin/python -m pytest -ra -q -p no:cacheprovider --timeout=900 --continue-on-collection-errors',
            'source_commits': [],
            'add_only': True,
        },
        'engines': [{'name': 'sim', 'path': 'sim/', 'serves_properties': sorted(CHECKS),
                     'kind_free_text': 'deterministic simulator in Python: seeded scheduler of public calls, host/cache/entropy/clock seams, fault injection, reference model and twin-world oracles, ddmin shrinking, replay files'}],
        'checks': checks,
        'not_applicable': na,
        'notes': 'Exit codes: 0 held / 1 VIOLATION / 2 HARNESS-ERROR. Known findings: known_findings.json. Fix commits in /repo are listed there as fixed: entries.',
    }
    with open(os.path.join(HERE, 'MANIFEST.json'), 'w') as f:
        json.dump(m, f, indent=1)
        f.write('\n')


if __name__ == '__main__':
    main()
