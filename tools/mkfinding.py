#!/usr/bin/env python3
"""mkfinding.py: (re)generate /verif/findings/*.json repro histories for the listed known findings and verify each
reproduces against /repo with the expected key. Run by hand when a finding is added; never at check time."""
import json, os, sys
sys.path.insert(0, os.path.dirname(os.path.dirname(os.path.abspath(__file__))))
from sim import boot
boot.boot()
from sim import runner

DBL = lambda n: ['block', [['short', 'st', '+=', ['name', 'st']]] * n]
W3 = lambda **kw: {'names': dict({'x': [1], 'st': 'ab'}, **kw), 'host_fns': []}
EV = lambda prog: {'op': 'eval', 'prog': prog, 'style': 0, 'kind': 'grow'}
CASES = {
    'C03-binop-plus': ('C03', {'kind': 'cap_bypass', 'site': 'BinOp:+'},
                       {'world': W3(big={'range': 10000}), 'ops': [EV(['assign', 'y', ['bin', '+', ['name', 'big'], ['name', 'x']]])]}),
    'C03-shortop-pluseq': ('C03', {'kind': 'cap_bypass', 'site': 'ShortOp:+='},
                           {'world': W3(big={'range': 10000}), 'ops': [EV(['short', 'big', '+=', ['name', 'x']])]}),
    'C03-setitemop-pluseq': ('C03', {'kind': 'cap_bypass', 'site': '__setitem_with_op__:+='},
                             {'world': W3(nest=[{'range': 10000}]), 'ops': [EV(['setitemop', ['name', 'nest'], ['num', '0'], '+=', ['list', [['num', '1']]]])]}),
    'C03-map-over-string': ('C03', {'kind': 'cap_bypass', 'site': 'call:map'},
                            {'world': W3(), 'ops': [EV(DBL(13)), EV(['assign', 'y', ['call', 'map', [['name', 'st'], ['lambda', ['c'], ['name', 'c']]], 'plain']])]}),
    'C03-match-all': ('C03', {'kind': 'cap_bypass', 'site': 'call:match_all'},
                      {'world': W3(), 'ops': [EV(DBL(13)), EV(['assign', 'y', ['call', 'match_all', [['name', 'st'], ['str', '.']], 'plain']])]}),
    'C03-split': ('C03', {'kind': 'cap_bypass', 'site': 'call:split'},
                  {'world': W3(), 'ops': [EV(DBL(14)), EV(['assign', 'y', ['call', 'split', [['name', 'st'], ['str', 'a']], 'plain']])]}),
}

C04W = {'names': {'e': {'d': '1E+50'}}}
for _f in ('int', 'floor', 'ceil', 'round'):
    CASES['C04-%s-decimal-exponent' % _f] = (
        'C04', {'kind': 'number_blowup', 'site': 'builtin:' + _f, 'cause': 'decimal_positive_exponent'},
        {'world': C04W, 'ops': [{'kind': 'builtin', 'op': _f, 'op_': 'eval', 'style': 0,
                                 'prog': ['assign', 'r', ['call', _f, [['name', 'e']], 'plain']]}]})

CASES['C05-compile-unbounded'] = ('C05', {'kind': 'compile_unbounded'}, {'real_compile_probe': '(?:a{3000}){3000}', 'limit_s': 2.0})


def main():
    extra = {}
    p = os.path.join(runner.VERIF, 'tools', 'findings_extra.py')
    if os.path.exists(p):
        ns = {}
        exec(open(p).read(), ns)
        extra = ns.get('CASES', {})
    ok = True
    for name, (prop_id, key, case) in sorted(dict(CASES, **extra).items()):
        prop = runner.get_prop(prop_id)
        vio, ctx, herr = runner.run_case(prop, case, [])
        good = bool(vio) and runner.key_matches(key, vio['key'])
        print('%-28s %s %s' % (name, 'reproduces' if good else 'DOES NOT REPRODUCE', (vio or {}).get('detail', herr)[:150] if (vio or herr) else ''))
        ok &= good
        if good:
            with open(os.path.join(runner.VERIF, 'findings', name + '.json'), 'w') as f:
                json.dump({'format': 1, 'property': prop_id, 'case': case, 'violation': vio}, f, indent=1)
                f.write('\n')
    return 0 if ok else 1


if __name__ == '__main__':
    sys.exit(main())
