#!/usr/bin/env python3
"""seed.py import OUTDIR N PROP   : verify a sub-agent's change (tests pass, demo fails with / passes without) in a
                                   scratch copy of /repo and store it as /verif/seeded/PROP-sN/
   seed.py run NAME [PROP ...]   : apply seeded/NAME/patch.diff to a scratch copy, run the quick checks of the given
                                   properties (default: the one it breaks) against it, record results in meta.json
   seed.py runall                : run every seeded change against its property's quick check; print a table
"""
import json, os, shutil, subprocess, sys, tempfile, time

VERIF = os.path.dirname(os.path.dirname(os.path.abspath(__file__)))
PY = '/venv/bin/python'


def scratch(patch):
    d = tempfile.mkdtemp(prefix='seed_', dir='/tmp')
    subprocess.check_call('cp -r /repo/. %s/ && rm -rf %s/.git' % (d, d), shell=True)
    subprocess.check_call(['git', 'init', '-q', d], stdout=subprocess.DEVNULL)
    r = subprocess.run(['git', 'apply', '--whitespace=nowarn', patch], cwd=d, capture_output=True, text=True)
    if r.returncode != 0:
        r2 = subprocess.run(['patch', '-p1', '--fuzz=3', '-i', patch], cwd=d, capture_output=True, text=True)
        if r2.returncode != 0:
            shutil.rmtree(d, ignore_errors=True)
            raise SystemExit('patch does not apply: %s\n%s' % (r.stderr, r2.stdout))
    return d


def sh(cmd, cwd, timeout=900):
    r = subprocess.run(cmd, cwd=cwd, shell=True, capture_output=True, text=True, timeout=timeout)
    return r.returncode, (r.stdout + r.stderr)


def cmd_import(outdir, n, prop, tag='s'):
    patch = os.path.join(outdir, 'patch%s.diff' % n)
    demo = os.path.join(outdir, 'demo%s.py' % n)
    notes = os.path.join(outdir, 'notes%s.md' % n)
    d = scratch(patch)
    try:
        rc_t, out_t = sh('timeout 600 %s -m pytest -q -p no:cacheprovider tests 2>&1 | tail -3' % PY, d)
        tests_ok = ' passed' in out_t and 'failed' not in out_t and 'error' not in out_t.lower()
        rc_with, out_with = sh('timeout 120 %s %s' % (PY, demo), d)
        rc_without, out_without = sh('timeout 120 %s %s' % (PY, demo), '/repo')
    finally:
        shutil.rmtree(d, ignore_errors=True)
    print('tests_ok=%s demo_with=%d demo_without=%d' % (tests_ok, rc_with, rc_without))
    print(out_t.strip().splitlines()[-1] if out_t.strip() else '')
    if not (tests_ok and rc_with != 0 and rc_without == 0):
        print('NOT CONFIRMED:\n', out_with[-800:], '\n---\n', out_without[-800:])
        return 1
    name = '%s-%s%s' % (prop, tag, n)
    dst = os.path.join(VERIF, 'seeded', name)
    os.makedirs(dst, exist_ok=True)
    shutil.copy(patch, os.path.join(dst, 'patch.diff'))
    shutil.copy(demo, os.path.join(dst, 'demo.py'))
    if os.path.exists(notes):
        shutil.copy(notes, os.path.join(dst, 'notes.md'))
    head = subprocess.run(['git', '-C', '/repo', 'rev-parse', '--short', 'HEAD'], capture_output=True, text=True).stdout.strip()
    meta = {'name': name, 'breaks_property': prop, 'source': 'independent sub-agent given only the property text',
            'needs_to_manifest': (open(notes).read()[:1500] if os.path.exists(notes) else ''),
            'confirmed': {'repo_head': head, 'tests_pass_with_change': True, 'demo_fails_with_change': True,
                          'demo_passes_without_change': True,
                          'ran': ['pytest tests (scratch copy with patch)', 'demo.py in scratch copy with patch',
                                  'demo.py in /repo (clean)']},
            'checks': {}}
    json.dump(meta, open(os.path.join(dst, 'meta.json'), 'w'), indent=1)
    print('stored', dst)
    return 0


def cmd_run(name, props, extra=''):
    dst = os.path.join(VERIF, 'seeded', name)
    meta = json.load(open(os.path.join(dst, 'meta.json')))
    props = props or [meta['breaks_property']]
    d = scratch(os.path.join(dst, 'patch.diff'))
    try:
        for p in props:
            t0 = time.time()
            env = dict(os.environ, SQ_REPO=d)
            r = subprocess.run('timeout 900 ./check %s --tier quick %s' % (p, extra), cwd=VERIF, shell=True,
                               capture_output=True, text=True, env=env)
            vio = [l for l in r.stdout.splitlines() if l.startswith('VIOLATION')]
            detail = [l for l in r.stdout.splitlines() if l.startswith('  {')]
            meta['checks'][p] = {'exit': r.returncode, 'detected': r.returncode == 1 and bool(vio),
                                 'wall_s': round(time.time() - t0, 1),
                                 'first_violation': (detail[0][:400] if detail else None)}
            print('%-8s %-4s exit=%d detected=%s %.0fs %s' % (name, p, r.returncode, r.returncode == 1 and bool(vio),
                                                                time.time() - t0, (detail[0][:160] if detail else r.stdout[-300:] if r.returncode == 2 else '')))
    finally:
        shutil.rmtree(d, ignore_errors=True)
        shutil.rmtree(os.path.join(VERIF, 'replays'), ignore_errors=True)
    json.dump(meta, open(os.path.join(dst, 'meta.json'), 'w'), indent=1)
    # the evidence files were just rewritten against a mutant: callers must re-run the check on /repo before committing


def cmd_reconfirm(name):
    """Does the stored change still break its demo on /repo's CURRENT head (a later fix: commit can take the ground
    from under it)? Records the answer in meta.json: 'superseded' changes are kept for the record but no longer count."""
    dst = os.path.join(VERIF, 'seeded', name)
    meta = json.load(open(os.path.join(dst, 'meta.json')))
    head = subprocess.run(['git', '-C', '/repo', 'rev-parse', '--short', 'HEAD'], capture_output=True, text=True).stdout.strip()
    try:
        d = scratch(os.path.join(dst, 'patch.diff'))
    except SystemExit as e:
        print(name, 'PATCH DOES NOT APPLY')
        return
    try:
        rc_with, _ = sh('timeout 120 %s %s' % (PY, os.path.join(dst, 'demo.py')), d)
        rc_without, _ = sh('timeout 120 %s %s' % (PY, os.path.join(dst, 'demo.py')), '/repo')
    finally:
        shutil.rmtree(d, ignore_errors=True)
    meta.setdefault('confirmed', {})['reconfirmed_at'] = head
    if rc_with != 0 and rc_without == 0:
        meta.pop('superseded', None)
    else:
        meta['superseded'] = {'repo_head': head, 'demo_with_change': rc_with, 'demo_without_change': rc_without,
                              'note': 'on this head the change no longer makes its demo fail: a later fix: commit in /repo removed the ground it stood on'}
    json.dump(meta, open(os.path.join(dst, 'meta.json'), 'w'), indent=1)
    print(name, 'with=%d without=%d %s' % (rc_with, rc_without, 'SUPERSEDED' if 'superseded' in meta else 'ok'), flush=True)


def main():
    a = sys.argv[1:]
    if a[0] == 'reconfirm':
        for name in (a[1:] or sorted(os.listdir(os.path.join(VERIF, 'seeded')))):
            if os.path.exists(os.path.join(VERIF, 'seeded', name, 'meta.json')):
                cmd_reconfirm(name)
        return
    if a[0] == 'import':
        sys.exit(cmd_import(a[1], a[2], a[3], a[4] if len(a) > 4 else 's'))
    if a[0] == 'run':
        cmd_run(a[1], a[2:])
    if a[0] == 'runall':
        for name in sorted(os.listdir(os.path.join(VERIF, 'seeded'))):
            mp = os.path.join(VERIF, 'seeded', name, 'meta.json')
            if os.path.exists(mp) and 'superseded' not in json.load(open(mp)):
                cmd_run(name, a[1:])


if __name__ == '__main__':
    main()
