#!/usr/bin/env python3
"""Print the markdown table 'which checks catch which seeded changes' from seeded/*/meta.json (+notes first line)."""
import glob, json, os, re
base = os.path.dirname(os.path.dirname(os.path.abspath(__file__)))
rows = []
for m in sorted(glob.glob(os.path.join(base, 'seeded', '*', 'meta.json'))):
    meta = json.load(open(m))
    d = os.path.dirname(m)
    what = ''
    notes = os.path.join(d, 'notes.md')
    if os.path.exists(notes):
        for line in open(notes):
            line = line.strip().lstrip('#').strip()
            if line and not line.lower().startswith(('change', 'c0', 'c1', 'notes', 'patch')) or len(line) > 40:
                what = re.sub(r'\s+', ' ', line)[:110]
                if what:
                    break
    det = [p for p, r in sorted(meta.get('checks', {}).items()) if r.get('detected')]
    missed = [p for p, r in sorted(meta.get('checks', {}).items()) if not r.get('detected')]
    kind = ''
    for p in det[:1]:
        fv = meta['checks'][p].get('first_violation') or ''
        mm = re.search(r'"kind": "([a-z_]+)"', fv)
        kind = mm.group(1) if mm else ''
    if 'superseded' in meta:
        rows.append((meta['name'], meta['breaks_property'], '(superseded by /repo %s: no longer breaks its demo)' % meta['superseded'].get('repo_head', ''), '', '', what))
        continue
    rows.append((meta['name'], meta['breaks_property'], ', '.join(det) or '-', kind, ', '.join(missed), what))
print('| change | breaks | detected by (quick) | as | not detected by | what it is |')
print('|---|---|---|---|---|---|')
for r in rows:
    print('| %s | %s | %s | %s | %s | %s |' % r)
print()
live = [r for r in rows if not r[2].startswith('(superseded')]
print('%d changes (%d superseded by later fix: commits); of the %d live ones %d are detected by the quick check of the property they break, %d more by another property\'s check' % (
    len(rows), len(rows) - len(live), len(live), sum(1 for r in live if r[1] in r[2].split(', ')),
    sum(1 for r in live if r[1] not in r[2].split(', ') and r[2] != '-')))
