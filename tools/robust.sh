#!/bin/sh
# robust.sh SEED...: every seeded change (not superseded) and own mutant against its property's quick check under other
# master seeds; prints the ones a seed misses (detection that hangs on one lucky sample is not detection).
cd "$(dirname "$0")/.."
for s in "$@"; do
  for m in seeded/*/meta.json; do
    d=$(dirname $m); n=$(basename $d)
    grep -q '"superseded"' $m && continue
    p=$(python3 -c "import json,sys;print(json.load(open('$m'))['breaks_property'])")
    out=$(tools/runmutant.sh $PWD/$d/patch.diff $p --tier quick --seed $s 2>&1); st=$?
    [ $st -eq 1 ] && echo "$out" | grep -q "^VIOLATION" && continue
    echo "MISSED seed=$s $n $p exit=$st"
  done
  for f in mutants/*.patch; do
    n=$(basename $f .patch); p=$(echo $n | cut -d_ -f1 | tr a-z A-Z)
    out=$(tools/runmutant.sh $PWD/$f $p --tier quick --seed $s 2>&1); st=$?
    [ $st -eq 1 ] && echo "$out" | grep -q "^VIOLATION" && continue
    echo "MISSED seed=$s $n $p exit=$st"
  done
  echo "robust seed $s done"
done
