"""A simulated world for history workloads: one (or more) long-lived parser(s), persistent names mappings,
the host, and the reference model evolving in parallel."""
from . import boot, canon, lang, monitors
from .model import Model
from .seams import make_cache
from .world import Host, real_eval, compare_with_model


def build_names(specs):
    """Host names mapping from value specs; {"alias": other} binds the SAME object under a second name (the host is free
    to hand one list to a program under two names)."""
    out = {}
    for k, v in specs.items():
        if not (isinstance(v, dict) and 'alias' in v):
            out[k] = lang.dec_value(v)
    for k, v in specs.items():
        if isinstance(v, dict) and 'alias' in v and v['alias'] in out:
            out[k] = out[v['alias']]
    return {k: out[k] for k in specs if k in out}


class ZeroDict(dict):
    """Counter-like: d[absent] answers 0 without creating the key."""

    def __missing__(self, key):
        return 0


def wrap_names(names, kind):
    """The host's names mapping is a Dict[str, Any]: any dict will do, also the ones with a __missing__ (asking them
    for an absent key creates it / answers with a default - `in` does not)."""
    import collections
    if kind == 'defaultdict':
        return collections.defaultdict(lambda: 'DEFAULT-FROM-MISSING', names)
    if kind == 'counter':
        return ZeroDict(names)
    if kind == 'ordered':
        return collections.OrderedDict(names)
    return names


class World:
    def __init__(self, cfg, with_model=True, parser=None):
        """cfg: {"names": {name: spec}, "host_fns": [names], "cache": spec|None}"""
        self.cfg = cfg
        self.cache = make_cache(cfg.get('cache'))
        self.parser = parser or boot.fresh_parser(self.cache)
        self.host = Host()
        self.host.thread_hop = bool(cfg.get('thread_hop'))
        self.host.reentry = list(cfg.get('reentry') or ())
        self.host.parser = self.parser
        fns = list(cfg.get('host_fns', ()))
        self.names = wrap_names(build_names(cfg.get('names', {})), cfg.get('names_kind'))
        if fns:
            self.names.update(self.host.fns(fns))
        self.model = None
        if with_model:
            mnames = build_names(cfg.get('names', {}))
            self.model = Model(mnames, host_fns=fns,
                               builtin_names=list(monitors.M.orig_functions) if monitors.M.installed else None)
            self.model.reentry = list(cfg.get('reentry') or ())

    def eval_and_judge(self, ctx, op, step, budget=60000, check_names=True, rec=None, names=None, mnames=None):
        """Run one eval op on the real system and the model; compare. Returns (judged, rout, mout)."""
        src = op.get('src')
        if src is None:
            src = lang.render(op['prog'], op.get('style', 0))
        pf = op.get('probe_fault')
        self.host.probe_calls = 0
        self.model.probe_calls = 0
        self.host.probe_faults = {int(pf): op.get('probe_fault_kind', 'raise')} if pf else {}
        self.model.probe_faults = {int(pf): op.get('probe_fault_kind', 'raise')} if pf else {}
        names = self.names if names is None else names
        ast = None
        if op.get('ast_names'):
            # helper expressions handed over as parsed trees (parsed by another parser: what is judged is this call)
            ast = {k: boot.fresh_parser().parse(lang.render(t, 0)) for k, t in op['ast_names'].items()}
        rout = real_eval(self.parser, src, names, budget=budget, rec=rec, ast_names=ast)
        mout = self.model.run(op['prog'], names=mnames, ast_names=op.get('ast_names'))
        judged = compare_with_model(ctx, mout, rout, self.model.host if mnames is None else mnames, names, 'step %d %r' % (step, src[:200]),
                                    check_names=check_names)
        if self.host.log != self.model.log and judged:
            ctx.report('probe_log_mismatch', 'step %d %r: host probe log: model %s, system %s' % (
                step, src[:200], self.model.log[-12:], self.host.log[-12:]), {'kind': 'probe_log_mismatch'})
        ctx.event(step, 'eval', rout.brief() if rout.kind != 'value' else canon.digest(rout.brief()), mout[0])
        return judged, rout, mout

    def state_digest(self):
        return canon.cdigest(self.names, monitors.M.fn_names)


SCAN_TEXTS = ['total(items[idx], (a + b', 'f(a, [b, {c: (d', 'x[1', 'g((((y', 'price * qty', 'a = [b, c]\nlen(a)', '{"k": [y, (z', 'm(n(o(p', 'u[v[w']
BAD_TEXTS = ['rand([1, 2', 'f(1 6)', 'shuffle([1, 2, 3)', '{"a": [1, (2', 'x = (', 'a + $ (', '[1, 2', 'g(h(', 'd["k"', 'x = [1, 2)\ny', 'for (', '(1 +\n', '{1: [2, (3']


def noise_op(r):
    """Something that happens on the same parser BETWEEN two judged calls and must leave no trace: a name listing that is
    abandoned midway (kept alive by the host, possibly inside open brackets), one that is requested but not read yet, a
    text that fails to parse or lex with brackets open. None of it is judged itself."""
    k = r.choice(['gen_abandon', 'gen_abandon', 'gen_defer', 'gen_consume', 'bad_parse', 'bad_parse', 'bad_eval', 'gen_drop'])
    op = {'op': 'noise', 'kind': k}
    if k in ('gen_abandon', 'gen_defer'):
        op['src'] = r.choice(SCAN_TEXTS)
        op['consume'] = r.randint(1, 3)
    elif k in ('bad_parse', 'bad_eval'):
        op['src'] = r.choice(BAD_TEXTS)
    return op


def do_noise(parser, op, state, ctx=None):
    """state: a dict owned by the caller (keeps the generators alive across calls)."""
    k = op['kind']
    try:
        if k == 'gen_abandon':
            it = iter(parser.list_names(op['src']))
            for _ in range(op['consume']):
                next(it, None)
            state.setdefault('suspended', []).append(it)
        elif k == 'gen_defer':
            state.setdefault('deferred', []).append(parser.list_names(op['src']))      # requested, not started
        elif k == 'gen_consume':
            for g in state.pop('deferred', []):
                list(g)
        elif k == 'gen_drop':
            if state.get('suspended'):
                state['suspended'].pop(0).close()
        elif k == 'bad_parse':
            parser.parse(op['src'])
        elif k == 'bad_eval':
            parser.eval(op['src'], {})
    except Exception:
        pass
    if ctx is not None:
        ctx.fault('noise_' + k)


def model_only(cfg):
    """World with only the model side, for model-state-aware generation."""
    fns = list(cfg.get('host_fns', ()))
    mnames = build_names(cfg.get('names', {}))
    m = Model(mnames, host_fns=fns, builtin_names=None)
    m.reentry = list(cfg.get('reentry') or ())
    return m


def strings_too_big(names, limit=3000):
    """Strings are not capped by the library (no property says they are): a history that keeps feeding a string into
    replace / join / + can square its length with every call. Runs are ended before that turns into a time or memory
    bomb for the harness (lengths up to `limit` squared are still handled by the next call)."""
    stack = list(names.values())
    n = 0
    while stack and n < 5000:
        v = stack.pop()
        n += 1
        if isinstance(v, str):
            if len(v) > limit:
                return True
        elif isinstance(v, (list, tuple)):
            if len(v) > limit:
                return True         # x += x doubles a list with every call (C03's known cap bypass): same bomb
            stack.extend(v[:200])
        elif isinstance(v, dict):
            if len(v) > limit:
                return True
            stack.extend(list(v.values())[:200])
    return False


def container_targets(model, depth=2, limit=4):
    """(expression tree, model object) of every container addressable from the model's host names."""
    out = []

    def walk(expr, v, d):
        out.append((expr, v))
        if d <= 0:
            return
        if isinstance(v, list):
            for i, x in enumerate(v[:limit]):
                if isinstance(x, (list, dict)):
                    walk(['index', expr, ['num', str(i)]], x, d - 1)
        else:
            for k, x in list(v.items())[:limit]:
                if isinstance(x, (list, dict)) and isinstance(k, str):
                    walk(['index', expr, ['str', k]], x, d - 1)
    for nm, v in model.host.items():
        if isinstance(v, (list, dict)):
            walk(['name', nm], v, depth)
    return out


def resolve_path(root_names, kept, target):
    """target: ["names", name, k1, k2...] or ["kept", i, k1, ...] -> object (or raises LookupError/TypeError)."""
    if target[0] == 'names':
        o = root_names[target[1]]
    else:
        o = kept[target[1]]
    for k in target[2:]:
        o = o[k]
    return o


def host_mutate(obj, how, arg=None):
    """The host mutates an object it holds a reference to, between calls. Returns True if something changed."""
    if isinstance(obj, list):
        if how == 'append':
            obj.append(arg); return True
        if how == 'clear':
            ch = bool(obj); obj.clear(); return ch
        if how == 'pop' and obj:
            obj.pop(); return True
        if how == 'set0' and obj:
            obj[0] = arg; return True
        if how == 'nested_append':
            for x in obj:
                if isinstance(x, list):
                    x.append(arg); return True
                if isinstance(x, dict):
                    x['hm'] = arg; return True
            return False
    elif isinstance(obj, dict):
        if how in ('append', 'set0'):
            obj['hm'] = arg; return True
        if how == 'clear':
            ch = bool(obj); obj.clear(); return ch
        if how == 'pop' and obj:
            obj.pop(next(iter(obj))); return True
        if how == 'nested_append':
            for x in obj.values():
                if isinstance(x, list):
                    x.append(arg); return True
                if isinstance(x, dict):
                    x['hm'] = arg; return True
            return False
    return False
