"""A simulated world for history workloads: one (or more) long-lived parser(s), persistent names mappings,
the host, and the reference model evolving in parallel."""
from . import boot, canon, lang, monitors
from .model import Model
from .seams import make_cache
from .world import Host, real_eval, compare_with_model


class World:
    def __init__(self, cfg, with_model=True, parser=None):
        """cfg: {"names": {name: spec}, "host_fns": [names], "cache": spec|None}"""
        self.cfg = cfg
        self.cache = make_cache(cfg.get('cache'))
        self.parser = parser or boot.fresh_parser(self.cache)
        self.host = Host()
        fns = list(cfg.get('host_fns', ()))
        self.names = {k: lang.dec_value(v) for k, v in cfg.get('names', {}).items()}
        if fns:
            self.names.update(self.host.fns(fns))
        self.model = None
        if with_model:
            mnames = {k: lang.dec_value(v) for k, v in cfg.get('names', {}).items()}
            self.model = Model(mnames, host_fns=fns,
                               builtin_names=list(monitors.M.orig_functions) if monitors.M.installed else None)

    def eval_and_judge(self, ctx, op, step, budget=10 ** 6, check_names=True, rec=None):
        """Run one eval op on the real system and the model; compare. Returns (judged, rout, mout)."""
        src = op.get('src')
        if src is None:
            src = lang.render(op['prog'], op.get('style', 0))
        rout = real_eval(self.parser, src, self.names, budget=budget, rec=rec)
        mout = self.model.run(op['prog'])
        judged = compare_with_model(ctx, mout, rout, self.model.host, self.names, 'step %d %r' % (step, src[:200]),
                                    check_names=check_names)
        if self.host.log != self.model.log and judged:
            ctx.report('probe_log_mismatch', 'step %d %r: host probe log: model %s, system %s' % (
                step, src[:200], self.model.log[-12:], self.host.log[-12:]), {'kind': 'probe_log_mismatch'})
        ctx.event(step, 'eval', rout.brief() if rout.kind != 'value' else canon.digest(rout.brief()), mout[0])
        return judged, rout, mout

    def state_digest(self):
        return canon.cdigest(self.names, monitors.M.fn_names)


def model_only(cfg):
    """World with only the model side, for model-state-aware generation."""
    fns = list(cfg.get('host_fns', ()))
    mnames = {k: lang.dec_value(v) for k, v in cfg.get('names', {}).items()}
    return Model(mnames, host_fns=fns, builtin_names=None)
