"""Process bootstrap: point at the repository tree, install seams, import smartquery, install monitors."""
import os
import sys

REPO = os.environ.get('SQ_REPO', '/repo')
_booted = False
PKGDIR = None
PRISTINE = None     # a never-used SqParser; deep copies of it are the pristine parsers of twin universes


def boot():
    global _booted, PKGDIR, PRISTINE
    if _booted:
        return
    sys.setrecursionlimit(20000)
    if REPO not in sys.path:
        sys.path.insert(0, REPO)
    from . import seams
    seams.install_before_import()
    import smartquery
    PKGDIR = os.path.dirname(os.path.abspath(smartquery.__file__)) + os.sep
    if not PKGDIR.startswith(os.path.abspath(REPO)):
        raise RuntimeError('smartquery imported from %s, expected under %s' % (PKGDIR, REPO))
    from . import monitors
    monitors.install()
    seams.AUDIT.install(PKGDIR)
    from smartquery.sq_parser import SqParser
    PRISTINE = SqParser()
    _booted = True


def fresh_parser(cache=None):
    """A pristine parser: deep copy of a never-used SqParser (a real construction costs ~100 ms)."""
    import copy
    # the LR tables are read-only after construction; sharing them makes the copy ~20x cheaper while every
    # other attribute (known or added by a future change) is still deep-copied
    memo = {}
    y = getattr(PRISTINE, 'yacc', None)
    for attr in ('productions', 'action', 'goto'):
        t = getattr(y, attr, None)
        if t is not None:
            memo[id(t)] = t
    p = copy.deepcopy(PRISTINE, memo)
    p.parse_cache = cache
    return p
