"""Process bootstrap: point at the repository tree, install seams, import smartquery, install monitors."""
import os
import sys

REPO = os.environ.get('SQ_REPO', '/repo')
_booted = False
PKGDIR = None
_CACHE_SENTINEL = {}
PRISTINE_CACHED = None
PRISTINE = None     # a never-used SqParser; deep copies of it are the pristine parsers of twin universes


def boot():
    global _booted, PKGDIR, PRISTINE
    if _booted:
        return
    sys.setrecursionlimit(6000)
    import decimal
    global CTX0
    CTX0 = decimal.getcontext().copy()
    if REPO not in sys.path:
        sys.path.insert(0, REPO)
    from . import seams
    seams.install_before_import()
    import smartquery
    PKGDIR = os.path.dirname(os.path.abspath(smartquery.__file__)) + os.sep
    if not PKGDIR.startswith(os.path.abspath(REPO)):
        raise RuntimeError('smartquery imported from %s, expected under %s' % (PKGDIR, REPO))
    from . import monitors
    monitors.install()
    seams.AUDIT.install(PKGDIR)
    from smartquery.sq_parser import SqParser
    PRISTINE = SqParser()
    global PRISTINE_CACHED
    PRISTINE_CACHED = SqParser(parse_cache=_CACHE_SENTINEL)   # constructor-time decisions that depend on a cache being given
    _load_twin()
    from . import modstate
    global SNAP_A, SNAP_B
    SNAP_A = modstate.snapshot([m for n, m in sorted(sys.modules.items()) if n == 'smartquery' or n.startswith('smartquery.')])
    SNAP_B = modstate.snapshot([m for n, m in sorted(TWIN_MODULES.items())])
    _booted = True


SNAP_A = SNAP_B = None
CTX0 = None
TWIN_MODULES = {}
TWIN = None             # namespace of the twin universe: .SqParser, .PRISTINE


def _load_twin():
    """Import the package a second time as an independent module universe (own module globals, caches, classes).
    It is used only for pristine / uncached twin oracles and is reset before every twin call, so that it has no
    history at all - not even process-wide memo tables that a deep copy of the parser cannot reach."""
    global TWIN
    saved = {n: m for n, m in sys.modules.items() if n == 'smartquery' or n.startswith('smartquery.')}
    for n in saved:
        del sys.modules[n]
    try:
        import importlib
        pkg = importlib.import_module('smartquery')
        sq = importlib.import_module('smartquery.sq_parser')
        for n, m in list(sys.modules.items()):
            if n == 'smartquery' or n.startswith('smartquery.'):
                TWIN_MODULES[n] = m
    finally:
        for n in list(sys.modules):
            if n == 'smartquery' or n.startswith('smartquery.'):
                del sys.modules[n]
        sys.modules.update(saved)

    class _T:
        pass
    TWIN = _T()
    TWIN.SqParser = sq.SqParser
    TWIN.modules = TWIN_MODULES
    TWIN.PRISTINE = sq.SqParser()
    TWIN.ParserError = TWIN_MODULES['smartquery.exceptions'].ParserError
    from . import monitors
    # the twin's builtin table gets the same (inert) wrappers as the monitored universe, so that texts which
    # mention the type of a builtin ("'function' object has no attribute ...") agree in both universes
    table = TWIN_MODULES['smartquery.functions'].FUNCTIONS
    for name in list(table):
        f = table[name]
        monitors.M.fn_names.setdefault(id(f), 'builtin:' + name)
        if isinstance(f, type):
            continue
        w = monitors._wrap_builtin(name, f)
        table[name] = w
        monitors.M.fn_names[id(w)] = 'builtin:' + name
        monitors.M.all_lambdas_alive.append(w)      # never freed: its id must not be reused by another callable


WRAPPERS_ON = True


def set_builtin_wrappers(enabled):
    """The builtin monitor replaces every (non-class) entry of FUNCTIONS by a pass-through Python wrapper. Checks that
    do not read what it records run with the ORIGINAL table entries, so that nothing a change might test about a
    builtin (its type, identity, signature, C-level fast paths) is masked by the instrumentation."""
    global WRAPPERS_ON, SNAP_A, SNAP_B
    if enabled == WRAPPERS_ON:
        return
    from . import monitors, modstate
    table = monitors.M.functions.FUNCTIONS
    for name, orig in monitors.M.orig_functions.items():
        if name in monitors.M.wrapped_functions and name in table:
            table[name] = monitors.M.wrapped_functions[name] if enabled else orig
    ttable = TWIN_MODULES['smartquery.functions'].FUNCTIONS
    for name in list(ttable):
        f = ttable[name]
        if enabled and not isinstance(f, type) and not hasattr(f, '_sim_orig'):
            w = monitors._wrap_builtin(name, f)
            ttable[name] = w
            monitors.M.fn_names[id(w)] = 'builtin:' + name
            monitors.M.all_lambdas_alive.append(w)
        elif not enabled and hasattr(f, '_sim_orig'):
            ttable[name] = f._sim_orig
    WRAPPERS_ON = enabled
    SNAP_A = modstate.snapshot([m for n, m in sorted(sys.modules.items()) if n == 'smartquery' or n.startswith('smartquery.')])
    SNAP_B = modstate.snapshot([m for n, m in sorted(TWIN_MODULES.items())])


def reset_run_state():
    """Called before every run (and replay): no process-global state of the package survives from earlier runs."""
    import decimal
    from . import modstate
    modstate.reset(SNAP_A)
    modstate.reset(SNAP_B)
    decimal.setcontext(CTX0.copy())       # the thread's decimal context is process-global state too
    from . import seams
    seams.VCLOCK.reset()
    seams.REGEX.reset('pass')
    seams.LOCKS.reset()
    clear_active_marks()
    import linecache
    linecache.clearcache()                # source-line lookups (traceback machinery) read files again: visible to the I/O seam


def clear_active_marks():
    """ContextVars of the package (the 'evaluation in progress' mark) are process state like any module global: no run
    starts with one left set by an earlier run. Also used after an injected asynchronous kill: a kill delivered inside
    the finally block that clears the mark cannot be cleaned up by any code (stated limit of trace_kill)."""
    import contextvars
    n = 0
    mods = [m for name, m in list(sys.modules.items()) if m is not None and (name == 'smartquery' or name.startswith('smartquery.'))]
    mods += [m for m in TWIN_MODULES.values() if m is not None]
    for mod in mods:
        for v in list(vars(mod).values()):
            if isinstance(v, contextvars.ContextVar):
                try:
                    if v.get(None) is not None:
                        v.set(None)
                        n += 1
                except Exception:
                    pass
    return n


class pristine_context:
    """Run a twin-universe call under the decimal context a fresh process has, then give the long-lived
    universe its (possibly modified) context back."""

    def __enter__(self):
        import decimal
        self.saved = decimal.getcontext()
        decimal.setcontext(CTX0.copy())

    def __exit__(self, *exc):
        import decimal
        decimal.setcontext(self.saved)
        return False


def twin_parser(cache=None):
    """Pristine parser of the twin universe, with the twin's module state reset (no history of any kind)."""
    import copy
    from . import modstate
    modstate.reset(SNAP_B)
    memo = {}
    y = getattr(TWIN.PRISTINE, 'yacc', None)
    for attr in ('productions', 'action', 'goto'):
        t = getattr(y, attr, None)
        if t is not None:
            memo[id(t)] = t
    p = copy.deepcopy(TWIN.PRISTINE, memo)
    p.parse_cache = cache
    return p


def fresh_parser(cache=None):
    """A pristine parser: deep copy of a never-used SqParser (a real construction costs ~100 ms)."""
    import copy
    # the LR tables are read-only after construction; sharing them makes the copy ~20x cheaper while every
    # other attribute (known or added by a future change) is still deep-copied
    memo = {}
    proto = PRISTINE if cache is None else PRISTINE_CACHED
    y = getattr(proto, 'yacc', None)
    for attr in ('productions', 'action', 'goto'):
        t = getattr(y, attr, None)
        if t is not None:
            memo[id(t)] = t
    if cache is not None:
        memo[id(_CACHE_SENTINEL)] = cache      # every reference to the constructor's cache argument becomes `cache`
    p = copy.deepcopy(proto, memo)
    if cache is None:
        p.parse_cache = None
    return p
