"""Builtin exerciser: applies every entry of the LIVE function table to many argument shapes (so a newly exposed
entry is exercised without the generator knowing its name)."""
from . import gen
from .rng import weighted

HOST_NAMES = {
    'L': [{'d': '3'}, {'d': '1'}, {'d': '2'}],
    'LS': ['b', 'a', 'c d'],
    'NL': [[{'d': '2'}, 1], [{'d': '1'}], []],
    'D': {'m': [['b', {'d': '2'}], ['a', {'d': '1'}]]},
    'ND': {'m': [['x', [1, 2]], ['y', {'m': [['k', 'v']]}]]},
    'S': 'a1 b22 c',
    'N': {'d': '2.5'},
    'I': 7,
    'E': [],
    'HL': [[1, 2], {'m': [['k', [3]]]}, 'x'],
    'DL': [{'m': [['k', [1]], ['n', 1]]}, {'m': [['k', [2]]]}, {'m': [['k', [3]], ['z', {'m': [['k', [4]]]}]]}],
    # scale: past the sizes where a "fast path for big inputs" would start (256-element list with duplicates and a nested
    # list in the middle, 100 ascending string keys, 60 strings that render to well over 1000 characters, a 1500-character text)
    'L300': [(i * 7) % 50 for i in range(150)] + [[1, 2]] + [(i * 3) % 40 for i in range(149)],
    'D100': {'m': [['k%03d' % i, i % 9] for i in range(100)]},
    'SL60': ['line %02d of the report text' % i for i in range(60)],
    'S2K': 'ab1 ' * 375,
    '%rec%': {'m': [['customer', {'m': [['name', 'Ann'], ['tags', ['a']]]}], ['total', {'d': '9.5'}]]},
    '%msg%': 'hello',
    '%n%': {'d': '1.25'},
}

ATTR_STRINGS = ['__class__', '__globals__', '{0.__class__}', '{0.__globals__}', '%s', '%(x)s', '__import__("os")', 'os.system',
                '{}', '\\d+', '(a)(b)', '__builtins__', 'eval', '.', '__dict__', 'lambda: 1']


def lam(r, arity, pure=True):
    if arity == 1:
        body = r.choice([['name', 'p'], ['bin', '+', ['name', 'p'], ['num', '1']], ['bin', '+', ['index', ['name', 'DL'], ['num', '0']], ['name', 'p']], ['call', 'str', [['name', 'p']], 'plain'],
                         ['bin', '<', ['name', 'p'], ['num', '2']], ['call', 'len', [['list', [['name', 'p']]]], 'plain'], ['list', [['name', 'p']]]])
        return ['lambda', ['p'], body]
    body = r.choice([['name', 'p'], ['bin', '+', ['name', 'p'], ['name', 'q']], ['list', [['name', 'p'], ['name', 'q']]], ['name', 'q'],
                     ['bin', '+', ['name', 'p'], ['name', 'q']]])
    return ['lambda', ['p', 'q'], body]


DOTTED_ATTRS = ['keys', 'items', 'upper', 'append', 'real', 'as_tuple', 'encode', '__class__', 'get', 'a', 'x', 'k', 'y.k', 'b.real',
                'pop', 'format', 'numerator', 'copy']


def atom(r, extra_names=()):
    k = weighted(r, [('name', 6), ('lit', 3), ('attr', 1.5), ('fn', 1), ('dotted', 0.7)])
    if k == 'dotted':
        # a %...% name spelling a path from a bound name: must stay an (undefined) name, never attribute access
        head = r.choice(list(HOST_NAMES) + list(extra_names)).strip('%')
        path = r.choice(DOTTED_ATTRS)
        if r.random() < 0.3:
            path = r.choice(['customer', 'total', 'customer.name', 'customer.tags']) + '.' + path
        return ['name', '%%%s.%s%%' % (head, path)]
    if k == 'name':
        return ['name', r.choice(list(HOST_NAMES) + list(extra_names))]
    if k == 'lit':
        return gen.value_tree(r, 2)
    if k == 'attr':
        return ['str', r.choice(ATTR_STRINGS)]
    return lam(r, r.choice([1, 2]))


# builtins that use an argument as a dict key: str(function) embeds a memory address, so a function used as a key makes
# the outcome depend on allocator state (address reuse) - one seed would no longer be one execution
KEYED = ('__getitem__', '__setitem__', '__setitem_with_op__', '__delitem__', 'get', 'remove', 'index_of', 'dict')


SCALE_NAMES = ('L300', 'D100', 'SL60', 'S2K')


def shapes(r, extra_names=(), table_names=(), no_functions=False):
    """A random argument list (0-4 args)."""
    n = weighted(r, [(0, 0.5), (1, 4), (2, 5), (3, 2.5), (4, 0.5)])
    args = []
    for i in range(n):
        x = r.random()
        if i == 0 and x < 0.8:
            args.append(['name', r.choice(list(HOST_NAMES) + list(extra_names))])
        elif no_functions:
            a = atom(r, extra_names)
            while a[0] == 'lambda':
                a = atom(r, extra_names)
            args.append(a)
        elif x < 0.25:
            args.append(lam(r, r.choice([1, 1, 2])))
        elif x < 0.32 and table_names and not (args and args[0][0] == 'name' and args[0][1] in SCALE_NAMES):
            args.append(['name', r.choice(table_names)])        # a builtin passed as an argument (not over the big host
                                                                # containers: reduce(60 strings, join) multiplies the text by 26 per element)
        else:
            args.append(atom(r, extra_names))
    return args


KNOWN_SHAPES = {
    'sorted': [['D100'], ['L'], ['LS'], ['D'], ['L', 'lam1'], ['L', 'lam1', 'true'], ['D', 'lam2'], ['L', 'none', 'true'], ['NL', 'lam1'], ['HL']],
    'reversed': [['L300'], ['L'], ['S'], ['NL'], ['HL']],
    'shuffle': [['L'], ['NL'], ['HL'], ['E']],
    'map': [['L', 'lam1'], ['S', 'lam1'], ['D', 'lam2'], ['NL', 'lam1'], ['HL', 'lam1'], ['DL', 'lam1']],
    'filter': [['L', 'lam1'], ['NL', 'lam1'], ['HL', 'lam1']],
    'reduce': [['L', 'lam2'], ['LS', 'lam2'], ['NL', 'lam2'], ['DL', 'lam2'], ['DL', 'lam2']],
    'enumerate': [['L'], ['NL'], ['S']],
    'keys': [['D'], ['ND'], ['D100']], 'values': [['D'], ['ND'], ['D100']], 'items': [['D'], ['ND'], ['D100']],
    'join': [['LS'], ['LS', 'str'], ['L', 'str'], ['NL', 'str']],
    'split': [['S'], ['S', 'str'], ['S', 'str', 'num']],
    'sum': [['L'], ['NL'], ['E'], ['L300']], 'min': [['L'], ['N', 'I'], ['NL']], 'max': [['L'], ['N', 'I'], ['LS']],
    'get': [['D', 'str'], ['D', 'str', 'L'], ['ND', 'str'], ['D', 'num'], ['D', 'str', 'NL']],
    'index_of': [['L', 'num'], ['LS', 'str'], ['NL', 'L'], ['HL', 'str'], ['L300', 'num'], ['L300', 'num']],
    'pretty': [['SL60'], ['SL60', 'str'], ['D'], ['L'], ['N'], ['ND'], ['NL'], ['D', 'str'], ['ND', 'num'], ['ND', 'str'], ['D', 'num'], ['L', 'num'], ['ND', 'L']],
    'len': [['L'], ['D'], ['S'], ['NL']], 'str': [['L'], ['D'], ['N'], ['NL']],
    'match': [['S', 'pat'], ['S', 'pat', 'str']], 'match_groups': [['S', 'pat']], 'match_all': [['S', 'pat'], ['S', 'pat', 'str'], ['S2K', 'pat']],
    'lower': [['S']], 'upper': [['S']], 'strip': [['S'], ['S', 'str']], 'replace': [['S', 'str', 'str'], ['S', 'str', 'str', 'num']],
    'startswith': [['S', 'str']], 'endswith': [['S', 'str']],
    'list': [['L', 'NL'], ['D']], 'dict': [[], ['D'], ['ND']],
    'int': [['N'], ['I']], 'float': [['N']], 'round': [['N'], ['N', 'num']], 'floor': [['N']], 'ceil': [['N']], 'abs': [['N']],
    'rand': [[], ['L'], ['NL'], ['I', 'I']],
    '__getitem__': [['L', 'num'], ['D', 'str'], ['NL', 'num'], ['S', 'num']],
}


def known_args(r, name):
    sh = r.choice(KNOWN_SHAPES[name])
    out = []
    for a in sh:
        if a == 'lam1':
            out.append(lam(r, 1))
        elif a == 'lam2':
            out.append(lam(r, 2))
        elif a == 'true':
            out.append(['bool', r.random() < 0.7])
        elif a == 'none':
            out.append(['none'])
        elif a == 'str':
            out.append(['str', r.choice([',', ' ', 'a', 'b', '1', ''])])
        elif a == 'num':
            out.append(['num', str(r.randint(0, 3))])
        elif a == 'pat':
            out.append(['str', r.choice(['\\d+', '[a-z]', '(\\w)(\\d)', 'b', '.'])])
        else:
            out.append(['name', a])
    return out


STR_PARAMS = ('s', 'str', 'pattern', 'old', 'new', 'sep', 'flags', 'flags_str', 'text', 'prefix', 'suffix', 'chars', 'fmt', 'format')
NUM_PARAMS = ('count', 'max_split', 'i', 'n', 'nd', 'index', 'start', 'stop', 'step', 'min_', 'max_', 'limit', 'ndigits')
FN_PARAMS = ('f', 'fn', 'func', 'key', 'callback', 'cb', 'predicate', 'mapper')
CONT_PARAMS = ('container', 'arr', 'value', 'values', 'lst', 'items', 'd', 'obj', 'v', 'args')


def sig_args(r, orig, extra_names=(), keyed=False):
    """Arguments derived from the live function's own signature (host-side introspection): one per parameter, typed by
    parameter-name heuristics, with a callable slipped in where a string is expected now and then."""
    import inspect
    try:
        sig = inspect.signature(orig)
    except (TypeError, ValueError):
        return None
    params = [p for p in sig.parameters.values()]
    if any(p.kind in (p.VAR_POSITIONAL, p.VAR_KEYWORD) for p in params):
        return None
    required = [p for p in params if p.default is p.empty]
    n = r.randint(len(required), len(params)) if len(params) > len(required) else len(params)
    if r.random() < 0.5:
        n = len(params)
    out = []
    for p in params[:n]:
        nm = p.name.lower()
        x = r.random()
        if nm in FN_PARAMS and not (keyed and nm == 'key'):
            out.append(lam(r, r.choice([1, 1, 2])))
        elif keyed and nm == 'key':
            out.append(r.choice([['str', 'a'], ['str', 'k'], ['num', '0'], ['num', '1'], ['str', 'zz']]))
        elif nm in STR_PARAMS or 'str' in nm or 'flag' in nm:
            if x < 0.22:
                out.append(r.choice([['lambda', ['p'], ['call', 'str', [['name', 'p']], 'plain']], ['lambda', ['p'], ['name', 'p']],
                                     ['lambda', ['p'], ['str', 'z']]]))
            elif x < 0.5:
                out.append(['name', r.choice(['S', 'S'] + list(extra_names))])
            else:
                out.append(['str', r.choice(['', 'a', '\\d+', 'b', ' ', 'i', '(\\w)', ATTR_STRINGS[r.randrange(len(ATTR_STRINGS))]])])
        elif nm in NUM_PARAMS:
            out.append(r.choice([['num', '1'], ['neg', ['num', '1']], ['num', '0'], ['num', '2']]))
        elif nm in CONT_PARAMS:
            out.append(['name', r.choice(list(HOST_NAMES) + list(extra_names))])
        else:
            a = atom(r, extra_names)
            while keyed and a[0] == 'lambda':
                a = atom(r, extra_names)
            out.append(a)
    return out
