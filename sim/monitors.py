"""Monitors: wrappers installed from outside around every Op subclass' eval, base Op.eval (the budget gate)
and every entry of FUNCTIONS. They observe; they never change what the wrapped code computes.

A `Rec` is the record of one public call (eval). Monitors are inert when no record is active.
"""
import collections

from . import canon
from .seams import SimKill

MUTATORS = ('push', 'pop', 'insert', 'remove', '__setitem__', '__setitem_with_op__', '__delitem__')


class Rec:
    __slots__ = ('nodes', 'gate_pass', 'gate_hit', 'state0', 'foreign', 'foreign_kinds', 'effects', 'kinds',
                 'kill_at', 'killed', 'depth', 'max_depth', 'in_lambda', 'lambda_nodes', 'builtin_calls',
                 'mutator_calls', 'value_hooks', 'builtin_hooks', 'lambdas', 'findings', 'log_effects',
                 'scoped', 'bdepth', 'hof_depth', 'nodes_in_hof', 'track_kinds', 'pre_builtin_hooks', 'scope_depth0', 'tainted', 'recursion_seen')

    def __init__(self):
        self.nodes = 0
        self.gate_pass = 0
        self.gate_hit = 0
        self.state0 = None
        self.foreign = 0
        self.foreign_kinds = collections.Counter()
        self.effects = []           # (nodes started so far, tag, digest)
        self.kinds = collections.Counter()
        self.kill_at = None
        self.killed = False
        self.depth = 0
        self.max_depth = 0
        self.recursion_seen = False
        self.in_lambda = 0
        self.lambda_nodes = 0
        self.builtin_calls = collections.Counter()
        self.mutator_calls = 0
        self.value_hooks = ()       # fn(node, value, rec)
        self.builtin_hooks = ()     # fn(name, args, result_or_exc, ok, rec, pre)
        self.pre_builtin_hooks = () # fn(name, args, rec) -> pre
        self.lambdas = []           # functions returned by LambdaOp.eval in this record (kept alive)
        self.findings = []          # monitor-detected problems: dicts
        self.log_effects = False
        self.scoped = None
        self.bdepth = 0
        self.hof_depth = 0
        self.nodes_in_hof = 0
        self.track_kinds = True
        self.tainted = False        # a node produced text that embeds a memory address (stringified function)
        self.scope_depth0 = None    # depth of the scope stack when the first node of the call started


class _M:
    cur = None
    installed = False
    ast_ops = None
    functions = None
    orig_functions = {}
    wrapped_functions = {}
    fn_names = {}           # id(callable) -> name, for canonical forms
    all_lambdas_alive = []  # keeps lambda objects alive so ids are not reused within a run
    program_lambdas = {}    # id -> result of a LambdaOp node evaluation (function, callable object, whatever the package uses)
    node_classes = []


M = _M()


def all_subclasses(cls):
    out = []
    stack = [cls]
    seen = set()
    while stack:
        c = stack.pop()
        for s in c.__subclasses__():
            if s not in seen:
                seen.add(s)
                out.append(s)
                stack.append(s)
    out.sort(key=lambda c: (c.__module__, c.__qualname__))
    return out


def _wrap_node(cls, orig, is_lambda):
    kind = cls.__name__

    def eval(self, state):
        rec = M.cur
        if rec is None:
            return orig(self, state)
        rec.nodes += 1
        if rec.kill_at is not None and rec.nodes == rec.kill_at:
            rec.killed = True
            raise SimKill('node-kill@%d' % rec.kill_at)
        if rec.track_kinds:
            rec.kinds[kind] += 1
        if rec.state0 is None:
            rec.state0 = state
            sc = getattr(getattr(state, 'names', None), 'scopes', None)
            if isinstance(sc, list):
                rec.scope_depth0 = len(sc)
        elif state is not rec.state0:
            rec.foreign += 1
            rec.foreign_kinds[kind] += 1
        if rec.hof_depth:
            rec.nodes_in_hof += 1
        rec.depth += 1
        if rec.depth > rec.max_depth:
            rec.max_depth = rec.depth
        try:
            v = orig(self, state)
        except RecursionError:
            rec.recursion_seen = True       # where the interpreter stack ends is not a property of the library
            raise
        finally:
            rec.depth -= 1
        if is_lambda and callable(v):
            try:
                v._sim_kind = 'lambda'
            except Exception:
                pass
            rec.lambdas.append(v)
            if len(M.program_lambdas) > 200000:
                M.program_lambdas.clear()
            M.program_lambdas[id(v)] = v          # whatever object a LambdaOp node evaluates to IS a program's lambda (kept alive: ids stay unique)
        for hook in rec.value_hooks:
            hook(self, v, rec)
        return v
    eval._sim_wrapper = True
    eval._sim_orig = orig
    return eval


def _wrap_gate(Op, orig, limit_exc):
    def eval(self, state):
        rec = M.cur
        if rec is None:
            return orig(self, state)
        direct = type(self).eval is Op.eval     # node kind without its own eval (NoOp): count it here
        if direct:
            rec.nodes += 1
            if rec.kill_at is not None and rec.nodes == rec.kill_at:
                rec.killed = True
                raise SimKill('node-kill@%d' % rec.kill_at)
            if rec.track_kinds:
                rec.kinds[type(self).__name__] += 1
            if rec.state0 is None:
                rec.state0 = state
            elif state is not rec.state0:
                rec.foreign += 1
                rec.foreign_kinds[type(self).__name__] += 1
        try:
            r = orig(self, state)
        except limit_exc:
            rec.gate_hit += 1
            raise
        rec.gate_pass += 1
        return r
    eval._sim_wrapper = True
    eval._sim_orig = orig
    return eval


HOFS = ('map', 'filter', 'reduce', 'sorted')


def _wrap_builtin(name, orig):
    is_mut = name in MUTATORS
    is_hof = name in HOFS

    def builtin(*args, **kw):
        rec = M.cur
        if rec is None:
            return orig(*args, **kw)
        rec.builtin_calls[name] += 1
        pres = [h(name, args, rec) for h in rec.pre_builtin_hooks] if rec.pre_builtin_hooks else None
        rec.bdepth += 1
        if is_hof:
            rec.hof_depth += 1
        mut0 = rec.mutator_calls
        try:
            r = orig(*args, **kw)
            if type(r) is str and len(r) > 3000000:
                from .seams import RunTooBig        # a text of millions of characters built inside one call (reduce over join ...)
                raise RunTooBig('builtin %s returned a string of %d characters' % (name, len(r)))
        except BaseException as e:
            if type(e).__name__ in ('RunTimeout', 'RunTooBig'):
                raise
            if is_mut:
                rec.mutator_calls += 1
            if rec.builtin_hooks and not isinstance(e, SimKill):
                for i, h in enumerate(rec.builtin_hooks):
                    h(name, args, e, False, rec, pres[i] if pres and i < len(pres) else None, rec.mutator_calls - mut0)
            raise
        finally:
            rec.bdepth -= 1
            if is_hof:
                rec.hof_depth -= 1
        if is_mut:
            rec.mutator_calls += 1
            if rec.log_effects:
                rec.effects.append((rec.nodes, name, canon.cdigest(args, M.fn_names)))
        for i, h in enumerate(rec.builtin_hooks):
            h(name, args, r, True, rec, pres[i] if pres and i < len(pres) else None, rec.mutator_calls - mut0)
        return r
    builtin._sim_kind = 'builtin:' + name
    builtin._sim_orig = orig
    builtin.__wrapped__ = orig        # introspection (inspect.signature) sees the real builtin's signature
    builtin.__name__ = getattr(orig, '__name__', name)
    return builtin


def install():
    """Wrap every node kind and every builtin table entry found in the *current* smartquery tree."""
    if M.installed:
        return
    import smartquery.ast_ops as ast_ops
    import smartquery.functions as functions
    import smartquery.rules  # noqa: F401  (all node classes are defined once rules is imported)
    from smartquery.exceptions import OpsExecutionLimitExceededError

    M.ast_ops = ast_ops
    M.functions = functions
    Op = ast_ops.Op
    classes = all_subclasses(Op)
    M.node_classes = classes
    for cls in classes:
        if 'eval' in cls.__dict__:
            orig = cls.__dict__['eval']
            setattr(cls, 'eval', _wrap_node(cls, orig, cls.__name__ == 'LambdaOp'))
    Op.eval = _wrap_gate(Op, Op.__dict__['eval'], OpsExecutionLimitExceededError)

    table = functions.FUNCTIONS
    for name in list(table):
        orig = table[name]
        M.orig_functions[name] = orig
        if isinstance(orig, type):
            # a class exposed as a builtin (dict, str) stays as it is: replacing it by a function would hide what
            # programs can do with the class object itself (dict["a"] is a types.GenericAlias)
            M.fn_names[id(orig)] = 'builtin:' + name
            continue
        w = _wrap_builtin(name, orig)
        M.wrapped_functions[name] = w
        table[name] = w
        M.fn_names[id(w)] = 'builtin:' + name
        M.fn_names[id(orig)] = 'builtin:' + name
    M.installed = True


class recording:
    """Context manager: activate a fresh Rec for one public call (supports nesting for re-entrancy)."""

    def __init__(self, rec=None):
        self.rec = rec or Rec()

    def __enter__(self):
        self.prev = M.cur
        M.cur = self.rec
        return self.rec

    def __exit__(self, *exc):
        M.cur = self.prev
        return False


class suspended:
    """Context manager: no record is active (used while a host callback re-enters the parser: the nested
    evaluation is a call of its own, with its own VM state and budget)."""

    def __enter__(self):
        self.prev = M.cur
        M.cur = None

    def __exit__(self, *exc):
        M.cur = self.prev
        return False
