"""Real-side world helpers: host probes, public-call wrappers, outcome classification, model comparison."""
import copy

from . import canon, monitors
from .model import ANY
from .seams import SimKill, AUDIT, RunTooBig


class HostError(Exception):
    """Raised by host probes; must propagate through the evaluator unchanged."""


class HostStop(StopIteration):
    """A host function that is backed by an iterator and has run dry: an ordinary exception of host code (it happens to
    be the one Python's iteration protocol uses as its end marker)."""


class HostValueError(ValueError):
    """A host function rejecting its argument with the exception Python code usually uses for that."""


class Host:
    """Scripted host functions bound in `names` (mirror of Model.call_host)."""

    def __init__(self):
        self.log = []
        self.kept = []
        self.probe_calls = 0
        self.probe_faults = {}
        self.swallowed = 0
        self.reentries = 0
        self.on_reenter = None
        self._fns = None
        # thread hop (world cfg 'thread_hop'): the host runs callbacks it was handed during THIS evaluation on a fresh
        # thread (empty contextvars context) and joins it - a synchronous hop, so the schedule stays deterministic.
        # Callables that were already reachable from the names mapping when the evaluation started are called directly
        # (a host that moves a lambda kept from an earlier call onto a thread has to carry the context over itself).
        # re-entry (world cfg 'reentry'): the host function re(i) calls back into the SAME parser in the middle of an
        # evaluation - a complete evaluation / parse / (partial) name listing of its own (mirror: Model.call_host 're')
        self.reentry = []
        self.parser = None
        self.cur_names = None
        self.suspended_gens = []
        self.thread_hop = False
        self.old_fn_ids = frozenset()
        self.hops = 0
        self._hop_depth = 0

    def reenter(self, i):
        from . import lang
        try:
            spec = self.reentry[int(i) % len(self.reentry)]
        except Exception:
            return None
        api = spec.get('api', 'eval')
        with monitors.suspended():
            try:
                if api == 'eval':
                    names = self.cur_names if spec.get('names') == 'same' and self.cur_names is not None else {}
                    v = self.parser.eval(lang.render(spec['prog'], spec.get('style', 0)), names, max_ops_evaluated=spec.get('budget', 500))
                    out = v
                elif api == 'parse':
                    self.parser.parse(lang.render(spec['prog'], 0) if 'prog' in spec else spec['src'])
                    out = 'parsed'
                else:
                    got = []
                    it = iter(self.parser.list_names(lang.render(spec['prog'], 0)))
                    n = spec.get('consume')
                    while n is None or len(got) < n:
                        try:
                            got.append(next(it))
                        except StopIteration:
                            break
                    if n is not None:
                        self.suspended_gens.append(it)      # abandoned midway, kept alive by the host
                    out = got
            except Exception as e:
                out = 'inner-failed:' + classify(e)
        self.log.append(('re', str(i), canon.cdigest(out, monitors.M.fn_names) if not isinstance(out, str) else out))
        return out

    def begin_eval(self, names):
        self.cur_names = names
        if not self.thread_hop:
            return
        ids = set()
        stack = list(names.values())
        n = 0
        while stack and n < 4000:
            v = stack.pop()
            n += 1
            if callable(v):
                ids.add(id(v))
            elif isinstance(v, dict):
                stack.extend(v.values())
            elif isinstance(v, (list, tuple)):
                stack.extend(v)
        self.old_fn_ids = frozenset(ids)

    def invoke(self, f, args):
        if not self.thread_hop or self._hop_depth >= 2 or not callable(f) or id(f) in self.old_fn_ids:
            return f(*args)
        import threading
        box = []

        def run():
            try:
                box.append((True, f(*args)))
            except BaseException as e:      # SimKill included: re-raised on the calling thread
                box.append((False, e))
        self._hop_depth += 1
        self.hops += 1
        try:
            th = threading.Thread(target=run)
            th.start()
            th.join()
        finally:
            self._hop_depth -= 1
        ok, v = box[0]
        if ok:
            return v
        raise v

    def fns(self, which=('t', 'boom', 'call', 'attempt', 'keep')):
        if self._fns is None:
            host = self

            def t(*args):
                host.probe_calls += 1
                i = args[0] if args else None
                host.log.append(('t', str(i)))
                cur = monitors.M.cur
                if cur is not None and cur.log_effects:
                    cur.effects.append((cur.nodes, 'probe:t', str(i)))
                if host.probe_faults.get(host.probe_calls) == 'raise':
                    raise HostError('probe %s' % (i,))
                if host.probe_faults.get(host.probe_calls) == 'stop':
                    raise HostStop('probe %s' % (i,))
                if host.probe_faults.get(host.probe_calls) == 'value':
                    raise HostValueError('probe %s' % (i,))
                return args[1] if len(args) > 1 else i

            def boom(*args):
                host.probe_calls += 1
                i = args[0] if args else None
                host.log.append(('boom', str(i)))
                cur = monitors.M.cur
                if cur is not None and cur.log_effects:
                    cur.effects.append((cur.nodes, 'probe:boom', str(i)))
                raise HostError('probe %s' % (i,))

            def call(f, *args):
                return host.invoke(f, args)

            def attempt(f, *args):
                try:
                    return host.invoke(f, args)
                except Exception:
                    host.swallowed += 1
                    return 'caught'

            def keep(*args):
                host.kept.append(args[0] if args else None)
                return args[0] if args else None

            def re(*args):
                host.reentries += 1
                if host.on_reenter:
                    return host.on_reenter(*args)
                if host.reentry and host.parser is not None:
                    return host.reenter(args[0] if args else 0)
                return None

            self._fns = {'t': t, 'boom': boom, 'call': call, 'attempt': attempt, 'keep': keep, 're': re}
            for k, f in self._fns.items():
                f._sim_kind = 'host:' + k
                f._host = self
        return {k: self._fns[k] for k in which}


class RecDict(dict):
    """Host names mapping that logs every write into the active monitor record (effect log)."""

    def __setitem__(self, k, v):
        cur = monitors.M.cur
        if cur is not None and cur.log_effects:
            cur.effects.append((cur.nodes, 'names[%s]=' % (k,), canon.cdigest(v, monitors.M.fn_names)))
        dict.__setitem__(self, k, v)

    def __delitem__(self, k):
        cur = monitors.M.cur
        if cur is not None and cur.log_effects:
            cur.effects.append((cur.nodes, 'del names[%s]' % (k,), ''))
        dict.__delitem__(self, k)


def classify(exc):
    from smartquery.exceptions import ParserError
    if isinstance(exc, (HostError, HostStop, HostValueError)):
        return 'host'
    if isinstance(exc, ParserError):
        return 'lang'
    if isinstance(exc, Exception):
        return 'other'
    return 'base'


def _address_taint(node, v, rec):
    if type(v) is str:
        if len(v) > 3000000:
            raise RunTooBig('a node evaluation returned a string of %d characters' % len(v))
        if ' at 0x' in v:
            rec.tainted = True


class Out:
    __slots__ = ('kind', 'value', 'exc', 'rec', 'ops_evaluated')

    def __init__(self, kind, value=None, exc=None, rec=None):
        self.kind = kind
        self.value = value
        self.exc = exc
        self.rec = rec

    def brief(self):
        if self.rec is not None and self.rec.tainted:
            return [self.kind, 'memory-address text involved']       # keeps event logs independent of the allocator
        if self.kind == 'value':
            return ['value', canon.canon(self.value, monitors.M.fn_names)]
        return [self.kind, type(self.exc).__name__, canon.norm_msg(str(self.exc))[:200]]

    def sig(self):
        """Class-and-message signature for twin-universe comparison."""
        if self.kind == 'value':
            return ['value', canon.canon(self.value, monitors.M.fn_names)]
        return ['exc', type(self.exc).__module__ + '.' + type(self.exc).__qualname__, canon.norm_msg(str(self.exc))]


def real_eval(parser, src, names, budget=60000, rec=None, default_budget=False, ast_names=None, audit=False):
    """One public eval call under a monitor record. Never lets an Exception escape; SimKill does (by design)."""
    rec = rec or monitors.Rec()
    rec.value_hooks = tuple(rec.value_hooks) + (_address_taint,)
    kw = {}
    if names:
        for hv in list(names.values()):
            h = getattr(hv, '_host', None)
            if h is not None:
                h.begin_eval(names)
                break
    if not default_budget:
        kw['max_ops_evaluated'] = budget
    if ast_names is not None:
        kw['ast_names'] = ast_names
    with monitors.recording(rec):
        if audit:
            AUDIT.armed = True
        try:
            v = parser.eval(src, names, **kw)
            out = Out('value', v, None, rec)
        except SimKill:
            raise
        except BaseException as e:   # classification decides what it means
            if type(e).__name__ in ('RunTimeout', 'RunTooBig'):
                raise
            out = Out(classify(e), None, e, rec)
        finally:
            if audit:
                AUDIT.armed = False
    return out


def real_parse(parser, src):
    try:
        return Out('value', parser.parse(src))
    except SimKill:
        raise
    except BaseException as e:
        if type(e).__name__ in ('RunTimeout', 'RunTooBig'):
            raise
        return Out(classify(e), None, e)


def real_list_names(parser, src, consume=None):
    """consume=None: all items; consume=j: take j items then drop the generator."""
    got = []
    try:
        g = parser.list_names(src)
        if consume is None:
            for x in g:
                got.append(x)
        else:
            it = iter(g)
            for _ in range(consume):
                try:
                    got.append(next(it))
                except StopIteration:
                    break
            if hasattr(it, 'close'):
                it.close()
        return Out('value', got)
    except SimKill:
        raise
    except BaseException as e:
        if type(e).__name__ in ('RunTimeout', 'RunTooBig'):
            raise
        o = Out(classify(e), None, e)
        o.value = got
        return o


def names_canon(names):
    return canon.canon(names, monitors.M.fn_names)


def compare_with_model(ctx, mout, rout, model_names, real_names, what, check_names=True):
    """Judge one eval against the model's prediction. mout = (kind, value) from Model.run.
    Returns False when the model declared the step unspecified (caller stops judging the run)."""
    mk, mv = mout
    if mk == 'unspec':
        ctx.stats['unspecified'] += 1
        return False
    ctx.stats['judged:' + mk] += 1
    if rout.kind == 'base':
        ctx.report('non_exception_escaped', '%s: %r escaped (%s)' % (what, rout.exc, type(rout.exc).__name__),
                   {'kind': 'non_exception_escaped'})
    if mk == 'value':
        if rout.kind != 'value':
            ctx.report('unexpected_error', '%s: model yields %s, system raised %s: %s' % (
                what, _short(canon.canon(mv)), type(rout.exc).__name__, canon.norm_msg(str(rout.exc))[:200]),
                {'kind': 'unexpected_error'})
        elif mv is not ANY:
            a = canon.canon(mv)
            b = canon.canon(rout.value, monitors.M.fn_names)
            if a != b:
                ctx.report('wrong_value', '%s: model %s, system %s' % (what, _short(a), _short(b)),
                           {'kind': 'wrong_value'})
    elif mk == 'lang':
        if rout.kind == 'value':
            ctx.report('missing_error', '%s: model demands a ParserError (%s), system returned %s' % (
                what, mv, _short(canon.canon(rout.value, monitors.M.fn_names))), {'kind': 'missing_error'})
        elif rout.kind != 'lang':
            ctx.report('wrong_error_class', '%s: language-level failure (%s) surfaced as %s: %s' % (
                what, mv, type(rout.exc).__name__, canon.norm_msg(str(rout.exc))[:200]),
                {'kind': 'wrong_error_class', 'exc': type(rout.exc).__name__})
    elif mk == 'other':
        if rout.kind == 'value':
            ctx.report('missing_error', '%s: model says the operation fails (%s), system returned %s' % (
                what, mv, _short(canon.canon(rout.value, monitors.M.fn_names))), {'kind': 'missing_error'})
    elif mk == 'host':
        if rout.kind != 'host':
            ctx.report('host_error_lost', '%s: a host probe raised, system outcome %s' % (what, rout.brief()),
                       {'kind': 'host_error_lost'})
    if check_names:
        a = _sorted_top(canon.canon(model_names))
        b = _sorted_top(names_canon(real_names))
        if a != b:
            ctx.report('names_mismatch', '%s: names after the call differ: model %s, system %s' % (
                what, _short(_diff(a, b)[0]), _short(_diff(a, b)[1])), {'kind': 'names_mismatch'})
    return True


def _sorted_top(c):
    """The order of the top-level names mapping is not part of any property; nested dict order is."""
    if isinstance(c, list) and c and c[0] == 'm':
        return ['m', sorted(c[1], key=lambda kv: repr(kv[0]))]
    return c


def _diff(a, b):
    """First differing entry of two canonical dicts, for messages."""
    try:
        da = {k if isinstance(k, str) else str(k): v for k, v in a[1]}
        db = {k if isinstance(k, str) else str(k): v for k, v in b[1]}
        for k in list(da) + [k for k in db if k not in da]:
            if da.get(k, '<absent>') != db.get(k, '<absent>'):
                return ({k: da.get(k, '<absent>')}, {k: db.get(k, '<absent>')})
        if list(da) != list(db):
            return (list(da), list(db))
    except Exception:
        pass
    return (a, b)


def _short(x, n=260):
    s = repr(x)
    return s if len(s) <= n else s[:n] + '...'
