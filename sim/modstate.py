"""Process-global state of the system under test (module globals, class attributes, lru caches, mutable default
arguments). A run must not inherit anything from the runs executed earlier in the same worker process - otherwise
a violation would not replay from its own file - and the pristine twin universe must have no history at all.

snapshot(mods) records the mutable containers reachable one level from every module / class / function of the
package; reset(snap) restores their contents in place and clears every functools cache.
"""
import copy
import types


import decimal

SCALARS = (bool, int, float, str, bytes, tuple, frozenset, decimal.Decimal)


def _containers_of(owner_kind, owner, out):
    try:
        items = list(vars(owner).items())
    except TypeError:
        return
    for name, v in items:
        if name.startswith('__') and name.endswith('__'):
            continue
        if v is None or isinstance(v, SCALARS):
            # a rebindable module / class level scalar (a limit raised at run time, a counter, a flag)
            out.append(('scalar', owner, name, None, v))
            continue
        if isinstance(v, (dict, list, set)):
            out.append(('cont', owner, name, v, copy.copy(v)))
        elif hasattr(v, 'cache_clear') and callable(getattr(v, 'cache_clear', None)):
            out.append(('cache', owner, name, v, None))
        elif isinstance(v, (types.FunctionType,)):
            _function_state(v, out)
        elif isinstance(v, (staticmethod, classmethod)):
            f = v.__func__
            if hasattr(f, 'cache_clear'):
                out.append(('cache', owner, name, f, None))
            elif isinstance(f, types.FunctionType):
                _function_state(f, out)


def _function_state(f, out):
    w = getattr(f, '__wrapped__', None)
    if hasattr(f, 'cache_clear'):
        out.append(('cache', None, f.__name__, f, None))
    for d in (f.__defaults__ or ()):
        if isinstance(d, (dict, list, set)):
            out.append(('cont', None, f.__name__ + '.default', d, copy.copy(d)))
    for d in (f.__kwdefaults__ or {}).values():
        if isinstance(d, (dict, list, set)):
            out.append(('cont', None, f.__name__ + '.kwdefault', d, copy.copy(d)))
    for cell in (f.__closure__ or ()):
        try:
            c = cell.cell_contents
        except ValueError:
            continue
        if isinstance(c, (dict, list, set)):
            out.append(('cont', None, f.__name__ + '.closure', c, copy.copy(c)))
        elif hasattr(c, 'cache_clear'):
            out.append(('cache', None, f.__name__ + '.closure', c, None))


def snapshot(modules, skip_prefix=('smartquery.ply', 'smartquery.gen')):
    out = []
    for m in modules:
        if m is None or m.__name__.startswith(skip_prefix):
            continue
        _containers_of('module', m, out)
        for name, v in list(vars(m).items()):
            if isinstance(v, type) and getattr(v, '__module__', None) == m.__name__:
                _containers_of('class', v, out)
    return out


def reset(snap):
    n = 0
    for kind, owner, name, obj, saved in snap:
        if kind == 'cache':
            try:
                obj.cache_clear()
            except Exception:
                pass
        elif kind == 'scalar':
            try:
                cur = vars(owner).get(name, saved)
                if cur is not saved and not (type(cur) is type(saved) and cur == saved):
                    setattr(owner, name, saved)
                    n += 1
            except Exception:
                pass
        else:
            if isinstance(obj, dict):
                if obj != saved or list(obj) != list(saved):
                    obj.clear(); obj.update(saved); n += 1
            elif isinstance(obj, list):
                if obj != saved:
                    obj[:] = saved; n += 1
            elif isinstance(obj, set):
                if obj != saved:
                    obj.clear(); obj.update(saved); n += 1
    return n
