"""Invalid sources made from valid ones by construction (the kind of failure is known without a second parser)."""
import re

TOKEN_RE = re.compile(r'''r?"(?:[^"\\\n]|\\.)*"|r?'(?:[^'\\\n]|\\.)*'|%[^%\n]*%|\d+(?:\.\d+)?|[^\W\d]\w*|\*\*|==|!=|>=|<=|=>|[+\-*/]=|\r\n|\S''')

CANNOT_END = {'+', '-', '*', '/', '**', '==', '!=', '<', '>', '<=', '>=', 'and', 'or', 'not', 'in', '(', '[', '{', ',', ':',
              '=', '+=', '-=', '*=', '/=', '=>', '.', '|', 'if', 'else', 'del'}


def tokens(src):
    return [(m.start(), m.end(), m.group(0)) for m in TOKEN_RE.finditer(src) if not m.group(0).startswith('#')]


def strip_comments(src):
    out = []
    for line in src.split('\n'):
        # comments in generated sources never contain quotes before the '#'
        i = line.find('#')
        out.append(line if i < 0 else line[:i])
    return '\n'.join(out)


def make_bad(r, src):
    """Returns (kind, text). kind in premature_end | unbalanced_open | unbalanced_close | stray_token | illegal_char |
    unterminated_string | reserved_word | truncated (unknown outcome)."""
    base = strip_comments(src)
    toks = tokens(base)
    k = r.choice(['premature_end', 'premature_end', 'unbalanced_open', 'unbalanced_close', 'stray_token', 'illegal_char',
                  'unterminated_string', 'reserved_word', 'truncated', 'opener', 'operator_newline'])
    if k == 'operator_newline':
        # a line break right after a binary operator OUTSIDE any bracket ends the statement too early (inside brackets
        # it would be ignored): a syntax error, unless the lexer believes it is still inside a bracket
        depth = 0
        cands = []
        for t in toks:
            if t[2] in '([{':
                depth += 1
            elif t[2] in ')]}':
                depth -= 1
            elif depth == 0 and t[2] in ('+', '*', '/', '==', '!=', '<=', '>=', 'and', 'or', '**'):
                cands.append(t)
        if cands:
            t = r.choice(cands)
            return k, base[:t[1]] + r.choice(['\n', ' \n ', '\r\n']) + base[t[1]:]
        return k, base.rstrip() + ' +\n2'
    if k == 'opener':
        # the text ends inside what other languages (or a future version of this one) would read as an open block
        # comment / long string: today a plain lexical or syntax error, and nothing of it may outlive the call
        return 'opener', base.rstrip() + r.choice([' /* note', ' """abc', " '''x y", ' /** d', ' (* c', ' <!-- h', ' {# j', ' /* a */ /* b',
                                                                ' "a\\" + secret', ' + "hello \\"world'])
    if not toks:
        return 'illegal_char', src + ' $'
    if k == 'premature_end':
        cands = [t for t in toks if t[2] in CANNOT_END]
        if cands:
            t = r.choice(cands)
            return k, base[:t[1]]
        return k, base.rstrip() + r.choice([' +', ' and', ' (', ' [', ' =>', ' .', ' ,'])[0:3].rstrip() if False else base.rstrip() + ' +'
    if k == 'unbalanced_open':
        return k, r.choice(['(', '[', '{', '((']) + base
    if k == 'unbalanced_close':
        return k, base.rstrip() + r.choice([')', ']', '}', '))'])
    if k == 'stray_token':
        t = r.choice(toks)
        long_num = ''.join(str((i * 7 + 3) % 10) for i in range(r.choice([41, 50, 80])))
        ins = r.choice([' 1 2 ', ' ) ', ' ] ', ' => ', ' , , ', ' : ', ' "s" "t" ', ' = = ',
                        ' 1e1000000000000000000 ', ' 2E-99999999999999999999 ', ' 1.5e+9999999999999999999999 ', ' 0x1F ', ' 1_000 ', ' 7j ', ' .5 ', ' 5. ',
                        ' %s ' % long_num, ' 1 %s ' % long_num, ' %s.5 ' % long_num, ' %s y ' % ('x' * 64), ' "%s" "t" ' % ('s' * 70)])
        return k, base[:t[0]] + ins + base[t[0]:]
    if k == 'illegal_char':
        t = r.choice(toks)
        return k, base[:t[1]] + r.choice(['$', '?', '~', '`', '\\', '@', '^', '&', '☃', '\x00']) + base[t[1]:]
    if k == 'unterminated_string':
        return k, base.rstrip() + r.choice([' "abc', " 'abc", ' + "x\\', ' r"a'])
    if k == 'reserved_word':
        t = r.choice(toks)
        return k, base[:t[0]] + ' ' + r.choice(['for', 'while', 'break', 'continue', 'def', 'raise', 'elif']) + ' ' + base[t[0]:]
    cut = r.randrange(len(base)) if len(base) > 1 else 0
    return 'truncated', base[:cut]
