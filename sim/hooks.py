"""Monitor hooks shared by several workloads (installed per record)."""
import collections
from decimal import Decimal

from . import canon
from .monitors import MUTATORS, M


# ---------------------------------------------------------------- C13: argument preservation of non-mutators
def c13_pre(name, args, rec):
    if name in MUTATORS:
        return None
    return canon.snap(args)


def c13_post(name, args, result, ok, rec, pre, nested_mutators):
    if pre is None or nested_mutators:
        return          # a mutator ran nested inside the call (e.g. a lambda that pushes): the lambda's doing
    now = canon.snap(args)
    if now != pre:
        if name == '__getitem__' and args and hasattr(type(args[0]), '__missing__'):
            # an index READ on a host mapping whose own __missing__ stores (collections.defaultdict): the host type's
            # semantics, not the builtin's doing
            rec.findings.append(('missing_store_skipped', name))
            return
        rec.findings.append(('argument_modified', name, _short(pre), _short(now)))


def _short(x, n=300):
    s = repr(_strip_ids(x))
    return s if len(s) <= n else s[:n] + '...'


def _strip_ids(sn):
    if isinstance(sn, tuple) and sn and sn[0] in ('l', 't', 'm'):
        if sn[0] == 'm':
            return {repr(_strip_ids(k)): _strip_ids(v) for k, v in sn[2]}
        return [_strip_ids(x) for x in sn[2]]
    if isinstance(sn, tuple) and len(sn) == 2:
        return sn[1]
    return sn


# ---------------------------------------------------------------- address taint (twin-universe comparisons)
def address_taint_hook(node, v, rec):
    """The text of a stringified function embeds a memory address; once a program has produced such a text (and may
    reverse, slice or sort it) the outcomes of two universes differ for reasons that are no property's business."""
    if type(v) is str:
        if len(v) > 3000000:
            from .seams import RunTooBig
            raise RunTooBig('a node evaluation returned a string of %d characters' % len(v))
        if ' at 0x' in v:
            rec.tainted = True


# ---------------------------------------------------------------- C02: plain-data type walk of every node result
class KeepSet(set):
    """ids of containers already walked, holding on to the containers themselves."""
    def __init__(self):
        super().__init__()
        self.keep = []


def make_c02_value_hook(allowed_callable):
    # containers found plain earlier in the same evaluation are not walked again (what is added to them later is itself a
    # node result and is walked when it is produced): without this a reduce over 300 elements re-walks its growing
    # accumulator after every node - quadratic
    seen = KeepSet()

    def hook(node, v, rec):
        if len(seen) > 300000:
            seen.clear()
            del seen.keep[:]
        bad = canon.type_walk(v, allowed_callable, _seen=seen)
        if bad:
            site = type(node).__name__
            nm = getattr(node, 'name', None) or getattr(node, 'op', None)
            rec.findings.append(('non_plain_value', '%s:%s' % (site, nm) if nm else site, bad[0], bad[1]))
    return hook


def make_allowed_callable(rec_getter):
    table_ids = set(id(f) for f in M.functions.FUNCTIONS.values())
    table_ids |= set(id(f) for f in M.orig_functions.values())

    def allowed(o):
        if id(o) in table_ids:
            return True
        if getattr(o, '_sim_kind', None) == 'lambda':
            return True
        if M.program_lambdas.get(id(o)) is o:
            return True         # the result of a LambdaOp node, however the package represents it
        if str(getattr(o, '_sim_kind', '')).startswith('host:re'):
            return True         # a function the host itself bound in names
        return False
    return allowed


# ---------------------------------------------------------------- C04: digit bound on numeric builtins
NUMERIC_BUILTINS = ('int', 'float', 'round', 'floor', 'ceil', 'abs', 'sum', 'min', 'max')


def d_arg(v):
    """Width of a numeric argument: significant digits (floats: of their exact binary expansion - generous)."""
    return canon.digits(v)


def d_res(v):
    """Width of a result. A float is a fixed-size machine number and cannot blow up: at most 17 significant digits."""
    if isinstance(v, float):
        return min(17, canon.digits(v))
    return canon.digits(v)


def numeric_leaves(args):
    out = []
    for a in args:
        if isinstance(a, (int, float, Decimal)):
            out.append(a)
        elif isinstance(a, (list, tuple)):
            out.extend(x for x in a if isinstance(x, (int, float, Decimal)))
    return out


def c04_builtin_post(name, args, result, ok, rec, pre, nested_mutators):
    if not ok or name not in NUMERIC_BUILTINS or name == 'float':
        return          # float(): the exact binary expansion of its value is allowed
    if not isinstance(result, (int, float, Decimal)) or isinstance(result, bool):
        return
    if isinstance(result, Decimal) and not result.is_finite():
        return
    nums = numeric_leaves(args)
    widest = max([d_arg(x) for x in nums] or [0])
    for a in args:
        if isinstance(a, str) and name == 'int':
            widest = max(widest, len(a))       # a digit string passed to int() counts by its length
    t = max(1, len(nums))
    if name == 'sum' and any(not isinstance(x, Decimal) for x in nums):
        bound = max(28, widest + len(str(t)))      # an exact sum of t host ints carries at most log10(t) digits
    else:
        bound = max(28, widest + 1)
    d = d_res(result)
    if d > bound:
        cause = 'other'
        if len(args) >= 1 and isinstance(args[0], Decimal) and args[0].is_finite() and args[0].as_tuple().exponent > 0:
            cause = 'decimal_positive_exponent'
        rec.findings.append(('number_blowup', 'builtin:' + name, cause, d, widest, brief_args(args)))


def brief_args(args):
    out = []
    for a in args:
        if isinstance(a, Decimal):
            out.append('Decimal(%d digits, exponent %s)' % (len(a.as_tuple().digits), a.as_tuple().exponent) if a.is_finite() else str(a))
        elif isinstance(a, bool):
            out.append(repr(a))
        elif isinstance(a, int):
            out.append('int(%d digits)' % canon.digits(a))
        elif isinstance(a, float):
            out.append('float(%r)' % a)
        else:
            out.append(type(a).__name__)
    return out
