"""Type-directed program generator over the neutral tree (DESIGN.md appendix A).

Types are best-effort tags (num str bool none list dict fn any). A share of ill-typed programs is produced on
purpose; the model then answers 'other error' or 'unspecified'.
"""
from . import gen
from .rng import weighted

VAR_POOL = ['a', 'b', 'c', 'x', 'y', 'z', 'acc', 'item', '%my var%', '%a.b%', 'цена', 'len', 'sum']
PARAM_POOL = ['p', 'q', 'v', 'w', 'k', 'x', 'a', 'n']


def type_of(v):
    from decimal import Decimal
    if isinstance(v, bool):
        return 'bool'
    if isinstance(v, (int, float, Decimal)):
        return 'num'
    if isinstance(v, str):
        return 'str'
    if v is None:
        return 'none'
    if isinstance(v, list):
        return 'list'
    if isinstance(v, dict):
        return 'dict'
    if callable(v):
        return 'fn'
    return 'any'


class ProgGen:
    def __init__(self, r, env=None, probes=False, max_depth=4, allow_host=(), illtyped=0.06, fn_arity=None, reentry=None):
        self.r = r
        self.env = dict(env or {})          # name -> type tag
        self.fn_arity = dict(fn_arity or {})  # name -> number of params for callable names
        self.max_depth = max_depth
        self.allow_host = tuple(allow_host)
        self.reentry = list(reentry or ()) if 're' in tuple(allow_host) else []
        self.illtyped = illtyped
        self.probe_n = 0
        self.probes = probes
        self.kinds = set()

    # ------------------------------------------------------------------ helpers
    def names_of(self, ty):
        return [n for n, t in self.env.items() if t == ty]

    def pick_type(self):
        return weighted(self.r, [('num', 5), ('str', 3), ('bool', 2), ('list', 3), ('dict', 1.5), ('none', 0.3)])

    def probe_wrap(self, t):
        """Wrap an expression in an observable probe t(i, e) (only if host probes are available)."""
        if 't' in self.allow_host and self.r.random() < 0.5:
            self.probe_n += 1
            return ['call', 't', [['num', str(self.probe_n)], t], 'plain']
        return t

    def leaf(self, ty):
        r = self.r
        names = self.names_of(ty)
        if names and r.random() < 0.45:
            return ['name', r.choice(names)]
        if ty == 'num':
            return gen.num_tree(r)
        if ty == 'str':
            return gen.str_tree(r)
        if ty == 'bool':
            return ['bool', r.random() < 0.5]
        if ty == 'none':
            return ['none']
        if ty == 'list':
            et = r.choice(['num', 'num', 'str', 'any'])
            return ['list', [self.leaf(et if et != 'any' else self.pick_scalar_type()) for _ in range(r.randint(0, 4))]]
        if ty == 'dict':
            ks = r.sample(['a', 'b', 'c', '1', '2', 'k'], r.randint(0, 3))
            return ['dict', [[(['str', k] if not k.isdigit() or r.random() < 0.5 else ['num', k]),
                              self.leaf(self.pick_scalar_type())] for k in ks]]
        return gen.scalar_tree(r)

    def pick_scalar_type(self):
        return weighted(self.r, [('num', 5), ('str', 3), ('bool', 1), ('none', 0.5)])

    # ------------------------------------------------------------------ expressions
    def expr(self, ty='any', depth=None):
        r = self.r
        if depth is None:
            depth = self.max_depth
        if ty == 'any':
            ty = self.pick_type()
        if r.random() < self.illtyped:
            ty = self.pick_type()
        if depth <= 0 or r.random() < 0.22:
            e = self.leaf(ty)
        else:
            e = getattr(self, 'e_' + ty)(depth - 1)
        if self.probes:
            e = self.probe_wrap(e)
        return e

    def call(self, f, args):
        self.kinds.add('call:' + f)
        return ['call', f, args, gen.sugar(self.r, len(args))]

    def lam(self, ptypes, body_ty, depth):
        """Lambda over fresh params of the given types; body of type body_ty."""
        r = self.r
        params = []
        for pt in ptypes:
            p = r.choice([x for x in PARAM_POOL if x not in params])
            params.append(p)
        saved = dict(self.env)
        for p, pt in zip(params, ptypes):
            self.env[p] = pt
        try:
            if r.random() < 0.1:
                # a lambda that merely forwards its parameters to a builtin: its body is still a node evaluated per call
                f = r.choice(['str', 'abs', 'len', 'round', 'floor', 'list', 'max', 'min'] if len(params) == 1 else ['max', 'min', 'list', 'round'])
                body = ['call', f, [['name', p] for p in params], 'plain' if r.random() < 0.7 else gen.sugar(r, len(params))]
                self.kinds.add('forwarding_lambda')
            else:
                body = self.expr(body_ty, depth)
        finally:
            self.env = saved
        self.kinds.add('lambda')
        return ['lambda', params, body]

    def e_num(self, d):
        r = self.r
        k = weighted(r, [('arith', 8), ('neg', 1.5), ('len', 2), ('conv', 2), ('round', 1.5), ('if', 1.5), ('index', 2),
                         ('minmax', 1), ('sum', 1), ('pow', 1.2), ('andor', 1), ('reduce', 1), ('callfn', 1.5), ('get', 0.7),
                         ('index_of', 0.5), ('pop', 0.5)])
        if k == 'arith':
            op = r.choice(['+', '-', '*', '/', '+', '-', '*'])
            self.kinds.add('bin:' + op)
            return ['bin', op, self.expr('num', d), self.expr('num', d)]
        if k == 'neg':
            self.kinds.add('neg')
            return ['neg', self.expr('num', d)]
        if k == 'len':
            return self.call('len', [self.expr(r.choice(['list', 'str', 'dict']), d)])
        if k == 'conv':
            f = r.choice(['int', 'float', 'abs', 'floor', 'ceil'])
            arg = self.expr('num', d)
            if f == 'int' and r.random() < 0.3:
                arg = ['str', r.choice(['12', '7', '-3', '007'])]
            return self.call(f, [arg])
        if k == 'round':
            if r.random() < 0.5:
                return self.call('round', [self.expr('num', d)])
            return self.call('round', [self.expr('num', d), ['num', str(r.randint(0, 4))]])
        if k == 'if':
            self.kinds.add('if')
            return ['if', self.expr('num', d), self.expr('bool', d), self.expr('num', d)]
        if k == 'index':
            self.kinds.add('index')
            lst = ['list', [self.expr('num', d - 1) for _ in range(r.randint(1, 4))]]
            names = self.names_of('list')
            if names and r.random() < 0.5:
                lst = ['name', r.choice(names)]
            return ['index', lst, self.index_key(d)]
        if k == 'minmax':
            f = r.choice(['min', 'max'])
            if r.random() < 0.5:
                return self.call(f, [self.expr('num', d), self.expr('num', d)])
            return self.call(f, [['list', [self.expr('num', d - 1) for _ in range(r.randint(1, 4))]]])
        if k == 'sum':
            return self.call('sum', [['list', [self.expr('num', d - 1) for _ in range(r.randint(0, 4))]]])
        if k == 'pow':
            self.kinds.add('bin:**')
            x = r.random()
            if x < 0.12:
                # a power that fails inside the operator itself
                return r.choice([['bin', '**', ['num', '0'], ['num', '0']], ['bin', '**', ['neg', ['num', '8']], ['num', '0.5']],
                                 ['bin', '**', ['num', '0'], ['neg', ['num', '1']]]])
            return ['bin', '**', self.expr('num', 0), ['num', str(r.randint(0, 5))]]
        if k == 'andor':
            op = r.choice(['and', 'or'])
            self.kinds.add('bin:' + op)
            return ['bin', op, self.expr(r.choice(['num', 'bool', 'str', 'list']), d), self.expr('num', d)]
        if k == 'reduce':
            return self.call('reduce', [['list', [self.expr('num', 0) for _ in range(r.randint(1, 4))]],
                                        self.lam(['num', 'num'], 'num', min(d, 2))])
        if k == 'callfn':
            return self.call_user_fn('num', d)
        if k == 'get':
            return self.call('get', [self.expr('dict', d), self.dict_key(d), self.expr('num', 0)])
        if k == 'index_of':
            return self.call('index_of', [self.expr('list', d), self.expr(self.pick_scalar_type(), 0)])
        if k == 'pop':
            names = self.names_of('list')
            if names:
                return self.call('pop', [['name', r.choice(names)]])
        return self.leaf('num')

    def index_key(self, d):
        r = self.r
        x = r.random()
        if x < 0.55:
            return ['num', str(r.randint(0, 3))]
        if x < 0.7:
            return ['neg', ['num', str(r.randint(1, 3))]]
        if x < 0.8:
            return ['num', r.choice(['0.5', '1.9', '2.0'])]
        if x < 0.9:
            return self.expr('num', min(d, 1))
        if x < 0.92:
            # a position thousands of digits long: out of range like any other (also when it comes to saying so)
            return r.choice([['bin', '**', ['num', '10'], ['num', '5000']], ['bin', '-', ['num', '0'], ['bin', '**', ['num', '10'], ['num', '4400']]]])
        return ['num', str(r.randint(4, 9))]

    def dict_key(self, d):
        r = self.r
        x = r.random()
        if x < 0.5:
            return ['str', r.choice(['a', 'b', 'c', '1', 'k', 'zz'])]
        if x < 0.75:
            return ['num', r.choice(['1', '2', '1.0'])]
        if x < 0.9:
            return self.expr('str', min(d, 1))
        return gen.scalar_tree(r)

    def e_str(self, d):
        r = self.r
        k = weighted(r, [('concat', 5), ('case', 2), ('strip', 1), ('replace', 1.5), ('join', 2), ('str', 2), ('rev', 1),
                         ('slice', 2), ('if', 1.5), ('index', 1), ('andor', 0.7), ('callfn', 1)])
        if k == 'concat':
            self.kinds.add('bin:+str')
            rhs = self.expr(weighted(r, [('str', 5), ('num', 3), ('bool', 1), ('none', 0.5)]), d)
            return ['bin', '+', self.expr('str', d), rhs]
        if k == 'case':
            return self.call(r.choice(['lower', 'upper']), [self.expr('str', d)])
        if k == 'strip':
            if r.random() < 0.6:
                return self.call('strip', [self.expr('str', d)])
            return self.call('strip', [self.expr('str', d), ['str', r.choice([' ', 'a', 'ab', 'x'])]])
        if k == 'replace':
            args = [self.expr('str', d), ['str', r.choice(['a', 'b', ' ', '1', ''])], self.expr('str', 0)]
            if r.random() < 0.3:
                args.append(['num', str(r.randint(0, 2))])
            return self.call('replace', args)
        if k == 'join':
            lst = ['list', [self.expr(r.choice(['str', 'str', 'num']), 0) for _ in range(r.randint(0, 4))]]
            if r.random() < 0.6:
                return self.call('join', [lst, ['str', r.choice([',', ', ', '', '-', '\n'])]])
            return self.call('join', [lst])
        if k == 'str':
            return self.call('str', [self.expr(r.choice(['num', 'bool', 'none', 'str']), d)])
        if k == 'rev':
            return self.call('reversed', [self.expr('str', d)])
        if k == 'slice':
            return self.slice_of(self.expr('str', d), d)
        if k == 'if':
            self.kinds.add('if')
            return ['if', self.expr('str', d), self.expr('bool', d), self.expr('str', d)]
        if k == 'index':
            self.kinds.add('index')
            return ['index', self.expr('str', d), ['num', str(r.randint(0, 2))]]
        if k == 'andor':
            op = r.choice(['and', 'or'])
            self.kinds.add('bin:' + op)
            return ['bin', op, self.expr(r.choice(['str', 'num', 'none']), d), self.expr('str', d)]
        if k == 'callfn':
            return self.call_user_fn('str', d)
        return self.leaf('str')

    def slice_of(self, c, d):
        r = self.r
        from .lang import SLICE_SHAPES
        shape = r.choice(SLICE_SHAPES)
        self.kinds.add('slice:' + shape)

        def bound():
            x = r.random()
            if x < 0.5:
                return ['num', str(r.randint(0, 4))]
            if x < 0.7:
                return ['neg', ['num', str(r.randint(1, 3))]]
            if x < 0.8:
                return ['none']
            if x < 0.9:
                return ['num', r.choice(['1.5', '0.9', '2.0'])]
            return self.expr('num', min(d, 1))
        a = b = None
        if shape != ':':
            a = bound()
            if shape == '::s' and r.random() < 0.8:
                a = r.choice([['num', '1'], ['num', '2'], ['neg', ['num', '1']], ['num', '3'], ['neg', ['num', '2']]])
        if shape == 'a:b':
            b = bound()
        return ['slice', c, shape, a, b]

    def e_bool(self, d):
        r = self.r
        k = weighted(r, [('cmpnum', 5), ('cmpstr', 2), ('eq', 3), ('in', 3), ('not', 2), ('andor', 3), ('starts', 1.5),
                         ('if', 1), ('mixedcmp', 0.7)])
        if k == 'cmpnum':
            op = r.choice(['<', '<=', '>', '>=', '==', '!='])
            self.kinds.add('bin:' + op)
            return ['bin', op, self.expr('num', d), self.expr('num', d)]
        if k == 'cmpstr':
            op = r.choice(['<', '<=', '>', '>=', '==', '!='])
            self.kinds.add('bin:' + op)
            return ['bin', op, self.expr('str', d), self.expr('str', d)]
        if k == 'eq':
            op = r.choice(['==', '!='])
            self.kinds.add('bin:' + op)
            t = self.pick_type()
            return ['bin', op, self.expr(t, d), self.expr(t if r.random() < 0.7 else self.pick_type(), d)]
        if k == 'in':
            op = r.choice(['in', 'notin'])
            self.kinds.add('bin:' + op)
            x = r.random()
            if x < 0.4:
                return ['bin', op, self.expr('num', d), self.expr('list', d)]
            if x < 0.7:
                return ['bin', op, self.expr('str', d), self.expr('str', d)]
            return ['bin', op, self.dict_key(d), self.expr('dict', d)]
        if k == 'not':
            self.kinds.add('not')
            return ['not', self.expr(r.choice(['bool', 'bool', 'num', 'str', 'list', 'none']), d)]
        if k == 'andor':
            op = r.choice(['and', 'or'])
            self.kinds.add('bin:' + op)
            return ['bin', op, self.expr('bool', d), self.expr('bool', d)]
        if k == 'starts':
            return self.call(r.choice(['startswith', 'endswith']), [self.expr('str', d), self.expr('str', 0)])
        if k == 'if':
            self.kinds.add('if')
            return ['if', self.expr('bool', d), self.expr('bool', d), self.expr('bool', d)]
        if k == 'mixedcmp':
            op = r.choice(['<', '>', '=='])
            return ['bin', op, self.expr('num', d), self.expr(r.choice(['str', 'none', 'bool']), d)]
        return self.leaf('bool')

    def e_none(self, d):
        return ['none']

    def e_list(self, d):
        r = self.r
        k = weighted(r, [('lit', 4), ('concat', 2), ('slice', 2), ('map', 3), ('filter', 2), ('sorted', 2), ('rev', 1),
                         ('kvi', 1.5), ('split', 1), ('enum', 0.7), ('if', 1), ('mapstr', 1.3), ('mapdict', 0.7),
                         ('sortedkey', 1), ('callfn', 0.7), ('listcall', 0.5)])
        if k == 'lit' and r.random() < 0.03:
            # a table of constants: 70 or 140 plain literals (no size at which a literal stops being a fresh list)
            self.kinds.add('long_literal')
            n = r.choice([70, 140])
            return ['list', [['num', str((i * 7) % 23)] if i % 5 else ['str', 'c%d' % (i % 3)] for i in range(n)]]
        if k == 'lit':
            et = r.choice(['num', 'num', 'str', 'mixed', 'list', 'dict'])
            self.kinds.add('list')
            return ['list', [self.expr(et if et != 'mixed' else self.pick_type(), d) for _ in range(r.randint(0, 4))]]
        if k == 'concat':
            self.kinds.add('bin:+list')
            return ['bin', '+', self.expr('list', d), self.expr('list', d)]
        if k == 'slice':
            return self.slice_of(self.expr('list', d), d)
        if k == 'map':
            return self.call('map', [self.numlist(d), self.lam(['num'], r.choice(['num', 'str', 'bool', 'list']), min(d, 2))])
        if k == 'filter':
            return self.call('filter', [self.numlist(d), self.lam(['num'], 'bool', min(d, 2))])
        if k == 'sorted':
            args = [self.numlist(d) if r.random() < 0.7 else ['list', [self.expr('str', 0) for _ in range(r.randint(0, 4))]]]
            if r.random() < 0.3:
                args += [['none'], ['bool', r.random() < 0.5]]
            return self.call('sorted', args)
        if k == 'sortedkey':
            args = [self.numlist(d), self.lam(['num'], 'num', 1)]
            if r.random() < 0.4:
                args.append(['bool', r.random() < 0.5])
            return self.call('sorted', args)
        if k == 'rev':
            return self.call('reversed', [self.expr('list', d)])
        if k == 'kvi':
            return self.call(r.choice(['keys', 'values', 'items']), [self.expr('dict', d)])
        if k == 'split':
            args = [self.expr('str', d)]
            if r.random() < 0.7:
                args.append(['str', r.choice([' ', ',', 'a', '1'])])
                if r.random() < 0.3:
                    args.append(['num', str(r.randint(0, 2))])
            return self.call('split', args)
        if k == 'enum':
            return self.call('enumerate', [self.expr('list', d)])
        if k == 'if':
            self.kinds.add('if')
            return ['if', self.expr('list', d), self.expr('bool', d), self.expr('list', d)]
        if k == 'mapstr':
            # every character is an element of its own, also when it occurs more than once
            subj = self.expr('str', d) if r.random() < 0.5 else ['str', r.choice(['aab', 'abab', 'zzz', '1.0 1.0', 'True', 'xx y xx'])]
            return self.call('map', [subj, self.lam(['str'], 'str', 1)])
        if k == 'mapdict':
            return self.call('map', [self.expr('dict', d), self.lam(['str', 'any'], r.choice(['str', 'list']), 1)])
        if k == 'callfn':
            return self.call_user_fn('list', d)
        if k == 'listcall':
            return ['call', 'list', [self.expr(self.pick_type(), d) for _ in range(r.randint(0, 3))], 'plain']
        return self.leaf('list')

    def numlist(self, d):
        r = self.r
        names = self.names_of('list')
        if names and r.random() < 0.3:
            return ['name', r.choice(names)]
        items = [self.expr('num', min(d, 1)) for _ in range(r.randint(0, 4))]
        if items and r.random() < 0.2:
            items.append(items[r.randrange(len(items))])       # equal elements are separate elements
        return ['list', items]

    def e_dict(self, d):
        r = self.r
        k = weighted(r, [('lit', 6), ('name', 2), ('sorted', 1), ('empty', 0.5), ('if', 0.7)])
        if k == 'lit':
            self.kinds.add('dict')
            n = r.randint(0, 3)
            pairs = []
            for _ in range(n):
                pairs.append([self.dict_key(d), self.expr(self.pick_type(), d)])
            return ['dict', pairs]
        if k == 'sorted':
            return self.call('sorted', [self.expr('dict', d)])
        if k == 'empty':
            return ['dict', []]
        if k == 'if':
            self.kinds.add('if')
            return ['if', self.expr('dict', d), self.expr('bool', d), self.expr('dict', d)]
        return self.leaf('dict')

    def call_user_fn(self, ty, d):
        """Call a lambda bound to a name (defined earlier in this program or an earlier eval)."""
        r = self.r
        fns = [n for n, t in self.env.items() if t == 'fn' and n in self.fn_arity]
        if not fns:
            return self.leaf(ty)
        f = r.choice(fns)
        n = self.fn_arity[f]
        if r.random() < 0.08:
            n = max(0, n + r.choice([-1, 1]))       # too few / too many arguments
        self.kinds.add('calluser')
        args = [self.expr('num', min(d, 1)) for _ in range(n)]
        if self.allow_host and 'call' in self.allow_host and r.random() < 0.25:
            self.kinds.add('hostcall')
            return ['call', r.choice([h for h in ('call', 'attempt') if h in self.allow_host]), [['name', f]] + args, 'plain']
        return ['call', f, args, 'plain' if n == 0 or r.random() < 0.7 else gen.sugar(r, n)]

    # ------------------------------------------------------------------ statements
    def new_var(self):
        if self.r.random() < 0.06:
            # a top-level binding that shadows a builtin (host bindings override builtins)
            return self.r.choice(['len', 'sum', 'max', 'min', 'str', 'abs', 'list', 'join'])
        return self.r.choice(VAR_POOL[:11])

    def stmt(self, depth=None):
        r = self.r
        d = self.max_depth if depth is None else depth
        k = weighted(r, [('assign', 6), ('short', 3), ('setitem', 2.5), ('setitemop', 1.5), ('del', 1), ('expr', 4),
                         ('deffn', 2), ('push', 1.5), ('mut', 1), ('reenter', 2.2 if self.reentry else 0)])
        if k == 'reenter':
            return self.stmt_reenter(d)
        if k == 'assign':
            ty = self.pick_type()
            e = self.expr(ty, d)
            v = self.new_var()
            self.env[v] = ty
            self.fn_arity.pop(v, None)
            self.kinds.add('assign')
            return ['assign', v, e]
        if k == 'short':
            cands = [(n, t) for n, t in self.env.items() if t in ('num', 'str', 'list')]
            self.kinds.add('short')
            if not cands or r.random() < 0.05:
                return ['short', self.new_var() if cands else 'undefined_v', r.choice(['+=', '-=']), self.expr('num', 1)]
            n, t = r.choice(cands)
            if t == 'num':
                return ['short', n, r.choice(['+=', '-=', '*=', '/=']), self.expr('num', d)]
            if t == 'str':
                return ['short', n, '+=', self.expr('str', d)]
            return ['short', n, '+=', self.expr('list', d)]
        if k in ('setitem', 'setitemop', 'del', 'push', 'mut'):
            cands = [(n, t) for n, t in self.env.items() if t in ('list', 'dict')]
            if not cands:
                v = self.new_var()
                ty = r.choice(['list', 'dict'])
                self.env[v] = ty
                return ['assign', v, self.leaf(ty)]
            n, t = r.choice(cands)
            key = self.index_key(1) if t == 'list' else self.dict_key(1)
            self.kinds.add(k)
            if k == 'setitem':
                return ['setitem', ['name', n], key, self.expr(self.pick_type(), d)]
            if k == 'setitemop':
                return ['setitemop', ['name', n], key, r.choice(['+=', '-=', '*=', '/=']), self.expr('num', 1)]
            if k == 'del':
                return ['del', ['name', n], key]
            if k == 'push':
                if t == 'list':
                    return self.call('push', [['name', n], self.expr(self.pick_type(), d)])
                return ['setitem', ['name', n], key, self.expr(self.pick_type(), d)]
            f = r.choice(['pop', 'insert', 'remove'])
            if f == 'pop':
                return self.call('pop', [['name', n]] + ([['num', str(r.randint(0, 2))]] if r.random() < 0.4 else []))
            if f == 'insert':
                return self.call('insert', [['name', n], ['num', str(r.randint(0, 3))], self.expr(self.pick_scalar_type(), 1)])
            return self.call('remove', [['name', n], self.expr(self.pick_scalar_type(), 0)])
        if k == 'deffn':
            return self.stmt_deffn(d)
        self.kinds.add('exprstmt')
        return self.expr('any', d)

    def stmt_reenter(self, d):
        """A statement in which the host function re(i) calls back into the same parser while this one is being
        evaluated (what re(i) does is listed in the world: a nested evaluation on the same or a fresh names mapping that
        may rebind / mutate what this statement is working on, a parse, a partial name listing)."""
        r = self.r
        i = r.randrange(len(self.reentry))
        spec = self.reentry[i]
        call = ['call', 're', [['num', str(i)]], 'plain']
        self.kinds.add('reenter')
        x = spec.get('rebinds')
        form = weighted(r, [('stmt', 3), ('short', 3 if spec.get('ret') == 'num' else 0), ('operand', 3 if spec.get('ret') == 'num' else 0), ('element', 2),
                            ('in_lambda', 1.5 if spec.get('ret') == 'num' else 0)])
        if form == 'short':
            tgt = x if x and self.env.get(x) == 'num' else None
            if tgt is None:
                cands = [n for n, t in self.env.items() if t == 'num']
                tgt = r.choice(cands) if cands else None
            if tgt is not None:
                return ['short', tgt, r.choice(['+=', '-=', '*=']), call]
            form = 'operand'
        if form == 'operand':
            other = ['name', x] if x and self.env.get(x) == 'num' and r.random() < 0.7 else self.expr('num', 1)
            e = ['bin', r.choice(['+', '-', '*']), other, call] if r.random() < 0.5 else ['bin', r.choice(['+', '-']), call, other]
            v = self.new_var()
            self.env[v] = 'num'
            self.fn_arity.pop(v, None)
            return ['assign', v, e]
        if form == 'element':
            m = spec.get('mutates')
            items = [['name', m] if m and self.env.get(m) == 'list' and r.random() < 0.6 else self.expr(self.pick_scalar_type(), 0), call, self.expr(self.pick_scalar_type(), 0)]
            v = self.new_var()
            self.env[v] = 'any'
            self.fn_arity.pop(v, None)
            return ['assign', v, ['list', items]]
        if form == 'in_lambda':
            v = self.new_var()
            self.env[v] = 'list'
            self.fn_arity.pop(v, None)
            return ['assign', v, ['call', 'map', [['list', [['num', '1'], ['num', '2']]], ['lambda', ['q'], ['bin', '+', ['name', 'q'], call]]], 'plain']]
        return call

    def stmt_deffn(self, d=None):
        r = self.r
        d = self.max_depth if d is None else d
        if True:
            v = r.choice(['f', 'g', 'h', 'fn', 'len', 'sum'][:4 + (2 if r.random() < 0.15 else 0)])
            n = r.choice([1, 1, 2, 3])
            x = r.random()
            if x < 0.25 and n == 1:
                # terminating recursion
                rc = ['call', v, [['bin', '-', ['name', 'n'], ['num', '1']]], 'plain']
                opr = r.choice(['+', '*', '-'])
                step = ['bin', opr, rc, ['name', 'n']] if r.random() < 0.5 else ['bin', opr, ['name', 'n'], rc]
                body = ['if', ['num', r.choice(['0', '1'])], ['bin', '<=', ['name', 'n'], ['num', '0']], step]
                lam = ['lambda', ['n'], body]
                self.kinds.add('recursion')
            else:
                lam = self.lam(['num'] * n, r.choice(['num', 'num', 'str', 'bool', 'list']), min(d, 3))
            self.env[v] = 'fn'
            self.fn_arity[v] = n
            self.kinds.add('deffn')
            return ['assign', v, lam]

    def program(self, n_stmts=None, depth=None):
        r = self.r
        n = n_stmts if n_stmts is not None else weighted(r, [(1, 4), (2, 3), (3, 2), (4, 1), (5, 1)])
        return ['block', [self.stmt(depth) for _ in range(n)]]
