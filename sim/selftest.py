"""Self-tests of the machinery.

selftest-determinism : >= N seeds per property, each run twice in different worker processes at worker counts 1 and
                       16, and once more in a fresh interpreter under a different PYTHONHASHSEED; the sha256 of every
                       run's event log must be identical in all.
selftest-seeded      : apply every /verif/seeded/*/patch.diff and /verif/mutants/*.patch to a scratch copy of /repo and
                       run the quick check of the property it breaks; report the detection table.
"""
import json
import os
import subprocess
import sys
import time

from . import runner


def _digests(prop_id, master, n, workers):
    from . import boot
    boot.boot()
    runner.KEEP_DIGESTS = True
    agg = runner.batch(prop_id, 'quick', master, workers=workers, n_runs=n)
    if agg['harness']:
        raise RuntimeError('harness errors in %s: %s' % (prop_id, agg['harness'][:1]))
    return dict(agg['digests']), agg


def determinism(args):
    props = [args.only.upper()] if getattr(args, 'only', None) else list(runner.PROPS)
    n = args.runs or 200
    master = args.seed if args.seed is not None else 777
    bad = 0
    t0 = time.time()
    if os.environ.get('SELFTEST_CHILD'):
        out = {}
        for p in props:
            d, _ = _digests(p, master, n, 4)
            out[p] = {str(k): v for k, v in d.items()}
        json.dump(out, sys.stdout)
        return 0
    # fresh interpreter under another hash seed, different worker count
    env = dict(os.environ, SELFTEST_CHILD='1', PYTHONHASHSEED='12345')
    child = subprocess.Popen([sys.executable, '-m', 'sim.cli', 'selftest-determinism', '--runs', str(n), '--seed', str(master)]
                             + (['--only', props[0]] if len(props) == 1 else []), cwd=runner.VERIF, env=env,
                             stdout=subprocess.PIPE, text=True)
    results = {}
    for p in props:
        a, agg = _digests(p, master, n, 16)
        b, _ = _digests(p, master, n, 1 if n <= 300 else 3)
        results[p] = (a, b)
        same = a == b
        nv = len(agg['violations'])
        print('%s: %d runs, 16 workers vs serial: %s%s' % (p, len(a), 'identical' if same else 'DIFFERENT', ' (violations present: %d)' % nv if nv else ''))
        if not same:
            bad += 1
            diff = [k for k in a if a[k] != b.get(k)]
            print('   first differing run indices:', diff[:10])
    out, _ = child.communicate(timeout=3600)
    try:
        other = json.loads(out[out.index('{'):])
    except Exception:
        print('HARNESS-ERROR: the fresh-interpreter run produced no digests:\n', out[-2000:])
        return 2
    for p in props:
        a = {str(k): v for k, v in results[p][0].items()}
        same = a == other.get(p)
        print('%s: fresh interpreter, PYTHONHASHSEED=12345, 4 workers: %s' % (p, 'identical' if same else 'DIFFERENT'))
        if not same:
            bad += 1
            diff = [k for k in a if a[k] != (other.get(p) or {}).get(k)]
            print('   first differing run indices:', diff[:10])
    print('determinism self-test: %s (%.0f s)' % ('OK' if not bad else '%d DIFFERENCES' % bad, time.time() - t0))
    return 0 if not bad else 1


def seeded(args):
    import glob
    rows = []
    base = runner.VERIF
    items = []
    for d in sorted(glob.glob(os.path.join(base, 'seeded', '*', 'meta.json'))):
        meta = json.load(open(d))
        if 'superseded' in meta:
            continue        # a later fix: commit took the ground from under this change (see meta.json)
        items.append((meta['name'], os.path.join(os.path.dirname(d), 'patch.diff'), meta['breaks_property']))
    for p in sorted(glob.glob(os.path.join(base, 'mutants', '*.patch'))):
        name = os.path.basename(p)[:-6]
        items.append((name, p, name.split('_')[0].upper()))
    if getattr(args, 'only', None):
        items = [i for i in items if args.only.upper() in (i[2], i[0].upper())]
    for name, patch, prop in items:
        t0 = time.time()
        r = subprocess.run([os.path.join(base, 'tools', 'runmutant.sh'), patch, prop, '--tier', 'quick'], capture_output=True, text=True,
                           env=dict(os.environ, TMO='900'))
        det = r.returncode == 1 and 'VIOLATION property=' in r.stdout
        rows.append((name, prop, r.returncode, det, time.time() - t0))
        print('%-28s %-4s exit=%d %s %.0fs' % (name, prop, r.returncode, 'DETECTED' if det else 'missed', time.time() - t0), flush=True)
    subprocess.run(['rm', '-rf', os.path.join(base, 'replays')])
    missed = [r for r in rows if not r[3]]
    print('%d of %d detected by the quick check of the property they break' % (len(rows) - len(missed), len(rows)))
    return 0


def antimutants(args):
    """No-alarm side: behaviour-preserving refactors under /verif/antimutants must keep every check at exit 0."""
    import glob
    import shutil
    import tempfile
    base = runner.VERIF
    bad = 0
    for patch in sorted(glob.glob(os.path.join(base, 'antimutants', '*.patch'))):
        d = tempfile.mkdtemp(prefix='am_', dir='/tmp')
        try:
            subprocess.check_call('cp -r /repo/. %s/ && rm -rf %s/.git && cd %s && git init -q . && git apply %s' % (d, d, d, patch), shell=True)
            for p in runner.PROPS:
                r = subprocess.run([os.path.join(base, 'check'), p, '--runs', str(args.runs or 600)], capture_output=True, text=True,
                                   env=dict(os.environ, SQ_REPO=d))
                if r.returncode != 0:
                    bad += 1
                    print('ALARM on behaviour-preserving refactor %s: %s exit=%d\n%s' % (os.path.basename(patch), p, r.returncode, r.stdout[-600:]))
            print('%-44s every check exit 0' % os.path.basename(patch) if not bad else '%s: alarms' % os.path.basename(patch), flush=True)
        finally:
            shutil.rmtree(d, ignore_errors=True)
    subprocess.run(['rm', '-rf', os.path.join(base, 'replays')])
    return 0 if not bad else 1


def main(which, args):
    if which == 'selftest-determinism':
        return determinism(args)
    if which == 'selftest-antimutants':
        return antimutants(args)
    return seeded(args)
