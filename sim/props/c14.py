"""C14 - lists and dicts behave like their models under any operation sequence (DESIGN.md section 5, C14).

Simulated: a few containers live in a persistent names mapping owned by the host; every op is one eval of one
container operation on the same long-lived parser; the fault is the *failing operation* (missing key,
out-of-range index, pop on empty, wrong-typed key) which must change nothing; the oracle is the reference
model's list / dict, compared op by op (value, error class, host-side contents).
"""
from decimal import Decimal

from .. import gen, lang, history
from ..rng import Streams, weighted

ID = 'C14'
LEVEL = 'exploration'
TIERS = {'quick': 20000, 'thorough': 700000}
RULE = ('seeded histories (swarm: half of the runs <= 5 ops, the rest 6-40) of single container operations '
        '{push,pop,pop(i),insert,remove,read,slice,write,compound write,del,get,index_of,keys/values/items,len,in} '
        'evaluated one per eval call on one long-lived SqParser against host-owned lists/dicts (nested, '
        'host- and program-made), keys drawn from in-range/negative/out-of-range/fractional/str/bool/None and '
        'equal-but-differently-typed groups (1, 1.0, "1", True); every op compared with a Python list/dict '
        'model (value, ParserError-vs-other class, container contents seen from the host). non-trivial = at '
        'least one operation failed (fault) and a later operation was still judged at full strength; distinct '
        'by sha256 of the canonical case')
ASSUMPTIONS = ['the reference model shares CPython list/dict/Decimal with the system (an error common to both is invisible)',
               'host dicts have string keys only (the normalisation is defined for program-made and JSON-like dicts)',
               'for del of an absent key/index, remove, out-of-range write and wrong-typed index only "ordinary Exception or no-op, state as the model" is demanded, not ParserError']
REAL = ['smartquery.* (lexer, PLY parser, evaluator, builtins)', 'decimal', 'copy']
STUB = ['host (owner of the names mapping)']
REACH_PROBES = ('failed_then_judged', 'lang_error', 'other_error', 'nested_target', 'equal_typed_key_pair',
                'negative_index', 'fractional_index', 'write_then_read_same_key', 'repeated_source', 'cache_hit', 'inner_blank_sibling_source', 'unjudged_activity_between_calls', 'failing_compound_after_mutation')

CONTAINERS = ['l', 'd', 'n', 'e', 'm', 'dl']


def _world(r):
    names = {}
    names['l'] = gen.host_list_spec(r, 0, 6)
    names['d'] = gen.host_dict_spec(r, 0, 5)
    if r.random() < 0.7:
        names['n'] = [gen.host_list_spec(r, 0, 3, depth=0), gen.host_dict_spec(r, 0, 3, depth=0), gen.host_list_spec(r, 1, 3, depth=0)]
    if r.random() < 0.15:
        names['dl'] = [(i * 7) % 50 for i in range(150)]        # 150 elements, every value three times
    if r.random() < 0.5:
        names['e'] = []
    if r.random() < 0.5:
        names['m'] = {'m': [['in', gen.host_list_spec(r, 0, 3, depth=0)], ['dd', gen.host_dict_spec(r, 0, 3, depth=0)]]}
    w = {'names': names, 'host_fns': []}
    if r.random() < 0.35:
        # the parser may carry a parse cache (same source text -> same tree object evaluated again)
        w['cache'] = r.choice([{'kind': 'dict'}, {'kind': 'dict'}, {'kind': 'lru', 'bound': 2}])
    return w


def _targets(model):
    """(expression tree, model object) of every container addressable in the current model state."""
    out = []
    for nm, v in model.host.items():
        if isinstance(v, (list, dict)):
            out.append((['name', nm], v))
            if isinstance(v, list):
                for i, x in enumerate(v[:4]):
                    if isinstance(x, (list, dict)):
                        out.append((['index', ['name', nm], ['num', str(i)]], x))
            else:
                for k, x in list(v.items())[:4]:
                    if isinstance(x, (list, dict)) and isinstance(k, str):
                        out.append((['index', ['name', nm], ['str', k]], x))
    return out


def _list_key(r, obj, ctxp):
    n = len(obj)
    k = weighted(r, [('in', 5), ('neg', 2), ('oob', 2), ('negoob', 1), ('frac', 2), ('str', 1), ('bool', 0.5),
                     ('none', 0.5), ('numstr', 0.5)])
    if k == 'in':
        return ['num', str(r.randrange(n))] if n else ['num', '0']
    if k == 'neg':
        ctxp.append('negative_index')
        return ['neg', ['num', str(r.randint(1, max(1, n)))]]
    if k == 'oob':
        return ['num', str(n + r.randint(0, 2))]
    if k == 'negoob':
        return ['neg', ['num', str(n + r.randint(1, 2))]]
    if k == 'frac':
        ctxp.append('fractional_index')
        base = r.randrange(n) if n else 0
        t = ['num', '%d.%s' % (base, r.choice(['5', '0', '9', '25', '9' * 20, '9' * 29, '0' * 19 + '1']))]
        if r.random() < 0.3:
            t = ['neg', ['num', '%d.%s' % (r.randint(0, max(0, n)), r.choice(['5', '9']))]]
        return t
    if k == 'str':
        return ['str', r.choice(['a', '0', '1'])]
    if k == 'bool':
        return ['bool', r.random() < 0.5]
    if k == 'numstr':
        return ['str', str(r.randrange(n) if n else 0)]
    return ['none']


# one tiny number spelled as a literal, computed three ways, and as the strings it could be cast to
TINY_GROUP = [['num', '0.0000001'], ['bin', '*', ['num', '0.0000001'], ['num', '1']], ['bin', '/', ['num', '1'], ['num', '10000000']],
              ['str', '1E-7'], ['str', '0.0000001'], ['bin', '-', ['num', '0.0000002'], ['num', '0.0000001']], ['num', '0.00000010']]
EQ_GROUP = [['num', '1'], ['num', '1.0'], ['str', '1'], ['bool', True], ['str', '1.0'], ['str', 'True'], ['num', '01']]


def _dict_key(r, obj, ctxp):
    keys = [k for k in obj.keys() if isinstance(k, str)]
    k = weighted(r, [('have', 5), ('miss', 2), ('eqgroup', 3), ('num', 1), ('none', 0.5), ('bool', 0.5), ('numeric_have', 2)])
    if k == 'have' and keys:
        return ['str', r.choice(keys)]
    if k == 'numeric_have' and keys:
        c = [x for x in keys if x.replace('.', '', 1).isdigit()]
        if c:
            return ['num', r.choice(c)]
    if k == 'eqgroup':
        ctxp.append('equal_typed_key_pair')
        return r.choice(EQ_GROUP) if r.random() < 0.8 else r.choice(TINY_GROUP)
    if k == 'num':
        return gen.num_tree(r)
    if k == 'none':
        return ['none']
    if k == 'bool':
        return ['bool', r.random() < 0.5]
    return ['str', r.choice(['zz', 'q', 'a', 'b', 'new', '2', '3', 'a b', 'a  b', 'a\tb', 'x y', 'x  y', 'e\u0301', '\u00e9', '\u212b'])]


def _value(r, model):
    x = r.random()
    if x < 0.05:
        return ['list', [['num', str(i)] for i in range(r.choice([9, 12, 70]))]]        # a literal of a dozen (or seventy) constants
    if x < 0.12:
        return r.choice([['list', []], ['dict', []]])
    if x < 0.6:
        return gen.scalar_tree(r)
    if x < 0.85:
        return gen.value_tree(r, 2)
    names = [n for n, v in model.host.items() if isinstance(v, (list, dict))]
    if names:
        return ['name', r.choice(names)]
    return gen.scalar_tree(r)


def _gen_op(r, model, last_write):
    probes = []
    targets = _targets(model)
    if not targets:
        return ['assign', 'l', ['list', []]], probes
    texpr, obj = r.choice(targets)
    if texpr[0] != 'name':
        probes.append('nested_target')
    is_list = isinstance(obj, list)
    key = (lambda: _list_key(r, obj, probes)) if is_list else (lambda: _dict_key(r, obj, probes))
    if last_write is not None and r.random() < 0.35:
        # read back what was just written, possibly through a differently spelled key
        probes.append('write_then_read_same_key')
        t, k = last_write
        kind = r.choice(['read', 'get', 'eq'])
        if kind == 'read':
            return ['index', t, k], probes
        if kind == 'get':
            return ['call', 'get', [t, k], gen.sugar(r, 2)], probes
        return ['bin', '==', ['index', t, k], ['index', t, k]], probes
    if is_list:
        kind = weighted(r, [('push', 4), ('pop', 3), ('popi', 2), ('insert', 3), ('remove', 2), ('read', 5), ('slice', 2),
                            ('write', 4), ('cwrite', 3), ('del', 3), ('index_of', 2), ('len', 1), ('in', 2),
                            ('write_read', 2), ('reversed', 0.5), ('sorted', 0.5), ('enumerate', 0.3), ('sum', 0.3)])
    else:
        kind = weighted(r, [('read', 5), ('write', 5), ('cwrite', 3), ('del', 3), ('get', 3), ('getd', 2), ('keys', 1),
                            ('values', 1), ('items', 1), ('len', 1), ('in', 2), ('remove', 1), ('write_read', 3),
                            ('sorted', 0.3)])
    if kind == 'push':
        return ['call', 'push', [texpr, _value(r, model)], gen.sugar(r, 2)], probes
    if kind == 'pop':
        return ['call', 'pop', [texpr], gen.sugar(r, 1)], probes
    if kind == 'popi':
        return ['call', 'pop', [texpr, key()], gen.sugar(r, 2)], probes
    if kind == 'insert':
        return ['call', 'insert', [texpr, key(), _value(r, model)], gen.sugar(r, 3)], probes
    if kind == 'remove':
        if is_list and obj and r.random() < 0.6:
            v = lang.literal_of(_spec_of(r.choice(obj)))
            if v is not None:
                return ['call', 'remove', [texpr, v], gen.sugar(r, 2)], probes
        return ['call', 'remove', [texpr, key() if not is_list else gen.scalar_tree(r)], gen.sugar(r, 2)], probes
    if kind == 'read':
        return ['index', texpr, key()], probes
    if kind == 'slice':
        shape = r.choice(lang.SLICE_SHAPES)
        a = b = None
        if shape != ':':
            a = _list_key(r, obj, probes) if r.random() < 0.8 else ['none']
        if shape == 'a:b':
            b = _list_key(r, obj, probes)
        return ['slice', texpr, shape, a, b], probes
    if kind == 'write':
        return ['setitem', texpr, key(), _value(r, model)], probes
    if kind == 'write_read':
        k = key()
        v = gen.scalar_tree(r) if r.random() < 0.7 else gen.value_tree(r, 1)
        probes.append('write_then_read_same_key')
        return ['block', [['setitem', texpr, k, v], ['bin', '==', ['index', texpr, k], v]]], probes
    if kind == 'cwrite':
        op = r.choice(['+=', '-=', '/=', '+=', '*='])
        return ['setitemop', texpr, key(), op, gen.scalar_tree(r) if r.random() < 0.8 else gen.value_tree(r, 1)], probes
    if kind == 'del' and is_list and r.random() < 0.12:
        # fails (the target was never bound) AFTER its right-hand side ran: the pop / push on the container has happened
        rhs = r.choice([['call', 'pop', [texpr], 'plain'], ['list', [['call', 'push', [texpr, ['num', '9']], 'plain'], ['call', 'len', [texpr], 'plain']]]])
        return ['short', 'undefined_t', '+=', rhs], probes + ['failing_compound_after_mutation']
    if kind == 'del':
        return ['del', texpr, key()], probes
    if kind == 'get':
        return ['call', 'get', [texpr, key()], gen.sugar(r, 2)], probes
    if kind == 'getd':
        return ['call', 'get', [texpr, key(), gen.scalar_tree(r)], gen.sugar(r, 3)], probes
    if kind == 'index_of':
        if obj and r.random() < 0.6:
            v = lang.literal_of(_spec_of(r.choice(obj)))
            if v is not None:
                return ['call', 'index_of', [texpr, v], gen.sugar(r, 2)], probes
        return ['call', 'index_of', [texpr, gen.scalar_tree(r)], gen.sugar(r, 2)], probes
    if kind in ('keys', 'values', 'items', 'len', 'reversed', 'sorted', 'enumerate', 'sum'):
        return ['call', kind, [texpr], gen.sugar(r, 1)], probes
    if kind == 'in':
        v = key() if not is_list else gen.scalar_tree(r)
        return ['bin', r.choice(['in', 'notin']), v, texpr], probes
    return ['call', 'len', [texpr], 'plain'], probes


def _spec_of(v, depth=0):
    """Model value -> spec usable by lang.literal_of (scalars and small lists only)."""
    if depth > 4:
        return {'unspellable': 1}     # deep or cyclic (push(l, l) builds a cycle)
    if v is None or isinstance(v, (bool, str)):
        return v
    if isinstance(v, int):
        return v
    if isinstance(v, Decimal):
        return {'d': str(v)}
    if isinstance(v, list):
        return [_spec_of(x, depth + 1) for x in v]
    return {'unspellable': 1}


BLANK_FAMILIES = [['a b', 'a  b', 'a\tb'], ['x y', 'x  y']]


def _blank_sibling(t, r):
    """A copy of program t in which ONE string literal is replaced by a sibling that differs only in its inner blanks
    (None if t has no such literal): rendered with the same style the two texts differ in nothing else."""
    import copy
    t2 = copy.deepcopy(t)
    found = []

    def walk(x):
        if isinstance(x, list):
            if len(x) == 2 and x[0] == 'str' and isinstance(x[1], str) and any(x[1] in f for f in BLANK_FAMILIES):
                found.append(x)
            for y in x:
                walk(y)
    walk(t2)
    if not found:
        return None
    leaf = r.choice(found)
    fam = [f for f in BLANK_FAMILIES if leaf[1] in f][0]
    leaf[1] = r.choice([v for v in fam if v != leaf[1]])
    return t2


def generate(seed, tier):
    S = Streams(seed)
    rc, ro = S['config'], S['ops']
    world = _world(rc)
    n_ops = rc.randint(1, 5) if rc.random() < 0.5 else rc.randint(6, 40)
    model = history.model_only(world)
    ops = []
    last_write = None
    for _ in range(n_ops):
        if S['faults'].random() < 0.08:
            ops.append(history.noise_op(S['faults']))      # unjudged activity on the same parser between judged calls
        evals = [o for o in ops if o['op'] == 'eval']
        if evals and ro.random() < 0.15:
            prev = ro.choice(evals)       # the very same source text again (a cached tree is evaluated twice)
            prog, probes = prev['prog'], ['repeated_source']
            op = {'op': 'eval', 'prog': prog, 'style': prev['style'], 'probes': probes}
            if ro.random() < 0.5:
                sib = _blank_sibling(prog, ro)
                if sib is not None:
                    # ... or its sibling: the same text except for the blanks INSIDE one string literal
                    op = {'op': 'eval', 'prog': sib, 'style': prev['style'], 'probes': ['inner_blank_sibling_source']}
                    prog = sib
        else:
            prog, probes = _gen_op(ro, model, last_write)
            style = gen.style(S['render'])
            if ro.random() < 0.25:
                style = 0           # canonical layout: texts then differ only where the PROGRAMS differ (say, blanks inside a key)
            op = {'op': 'eval', 'prog': prog, 'style': style, 'probes': probes}
        ops.append(op)
        out = model.run(prog)
        last_write = None
        if out[0] == 'value' and prog[0] in ('setitem', 'setitemop'):
            last_write = (prog[1], prog[2])
        if out[0] == 'unspec':
            break
    return {'world': world, 'ops': ops}


def execute(case, ctx):
    W = history.World(case['world'])
    failed_before = False
    noise = {}
    for step, op in enumerate(case['ops']):
        ctx.step = step
        if op['op'] == 'noise':
            history.do_noise(W.parser, op, noise, ctx)
            ctx.probe('unjudged_activity_between_calls')
            continue
        ctx.op_kind(_kind_of(op['prog']))
        judged, rout, mout = W.eval_and_judge(ctx, op, step)
        if not judged:
            break
        for p in op.get('probes', ()):
            ctx.probe(p)
        if mout[0] in ('lang', 'other'):
            ctx.fault('failing_op')
            ctx.probe('lang_error' if mout[0] == 'lang' else 'other_error')
            failed_before = True
        elif failed_before:
            ctx.nontrivial = True
            ctx.probe('failed_then_judged')
        ctx.state(W.state_digest())
    if W.cache is not None:
        ctx.probe('cache_hit', W.cache.stats['hit'])


def _kind_of(prog):
    if prog[0] == 'call':
        return 'call:' + prog[1]
    if prog[0] == 'block':
        return 'block:' + _kind_of(prog[1][0])
    if prog[0] == 'bin':
        return 'bin:' + prog[1]
    return prog[0]


def simplify(case):
    from ..shrink import simplify_trees
    yield from simplify_trees(case, None)
    # drop host containers one by one / empty them
    names = case['world']['names']
    for k in list(names):
        if names[k] not in ([], {'m': []}):
            nn = dict(names)
            nn[k] = [] if isinstance(names[k], list) else {'m': []}
            yield dict(case, world=dict(case['world'], names=nn))


def sample(case):
    return {'world': case['world'], 'ops': [lang.render(o['prog'], o.get('style', 0)) for o in case['ops']][:12]}
