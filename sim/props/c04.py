"""C04 - arithmetic stays in bounded-precision decimals; numbers cannot blow up (DESIGN.md section 5, C04).

Simulated: chains. A persistent host names mapping holds numeric variables of every host-suppliable type (ints
incl. 40-400 digit ones, bools, floats incl. huge/tiny, Decimals incl. exponents up to +-5000 and 40-digit
coefficients) plus a string and a list; a history of single-statement evals rewrites them (x = a op b, x op= y,
c[k] op= y, numeric builtins) on one long-lived parser. The invariant is about the run, not one call: the size of a
number grows at most linearly along the chain. Operands are read from the host side before each call, the result
after it; a monitor on the numeric builtins checks every call made anywhere.
"""
from decimal import Decimal

from .. import boot, canon, gen, lang, monitors, hooks
from ..rng import Streams, weighted
from ..world import real_eval

ID = 'C04'
NEEDS_BUILTIN_WRAPPERS = True      # reads what the builtin monitor records (hooks / effect log)
LEVEL = 'exploration'
TIERS = {'quick': 12000, 'thorough': 600000}
WALL_CAP = 400       # a tree that powers host ints natively needs tens of seconds for one operation: it must end in a verdict
RULE = ('seeded chains of 5-30 single-statement evals over persistent host-typed numeric variables (int, long int, bool, '
        'float, Decimal with large exponents / long coefficients) plus a str and a list: r = a op b for + - * / ** and '
        'unary minus, a op= b, c[k] op= b, and the numeric builtins int float round floor ceil abs sum min max; oracle per '
        'operation: digits(result) <= max(28, 1 + widest numeric operand) (sum: + number of addends; float results: a '
        'fixed-size machine number; float(): exact expansion allowed); * / ** / *= / c[k] *= return a Decimal or raise '
        'and never repeat a str/list; arithmetic errors are acceptable outcomes. non-trivial = a chain of >= 5 judged '
        'operations that involved a non-Decimal host operand or a long number; distinct by sha256 of the case')
ASSUMPTIONS = ['operand-pair coverage is input generation; the chain invariant and the persistent host-typed variables are the simulated part',
               'exponents are capped at +-5000 so that a violating tree still terminates in milliseconds',
               'a float result counts as at most 17 significant digits (it cannot grow); float arguments count by their exact expansion']
REAL = ['smartquery.* (operators, compound assignment, numeric builtins)', 'decimal']
STUB = ['host (supplies numeric variables of every Python numeric type)']
REACH_PROBES = ('host_int_operand', 'long_int_operand', 'float_operand', 'big_exponent_operand', 'mul_on_non_number_refused',
                'compound_mul', 'compound_index_mul', 'pow', 'numeric_builtin', 'arithmetic_error', 'chain5', 'nested_eval_product', 'builtin_name_rebound_by_program', 'many_distinct_operands')

VARS = ['i', 'j', 'k', 'k2', 'm47', 'm47b', 'b10', 'big', 'huge', 'f', 'g', 't', 'd', 'e', 'm', 'w', 'hs', 'he', 'hs2']
SMALL_EXPONENTS = ['i', 'j', 't', 'w', 'd']     # exponents are kept small so that a tree computing ** natively still terminates


def _world(r):
    names = {
        'i': r.choice([2, 3, 7, 10, -4, 123]),
        'j': r.choice([0, 1, 5, 99, -1]),
        'k': {'i': str(r.choice([2 ** 63, 10 ** 18 + 3, 999999999999999999, 2 ** 64 - 1, 10 ** 15]))},
        'k2': {'i': str(r.choice([2 ** 62 + 1, 10 ** 19 - 7, 123456789012345678, -(2 ** 63)]))},
        'm47': {'i': str(r.choice([2 ** 47 - 1, 140737488355327, 99999999999999]))},
        'm47b': {'i': str(r.choice([10 ** 14 + 1, 2 ** 46 + 12345, 123456789012345]))},
        'b10': {'i': str(r.choice([10 ** 10, 10 ** 10 + 1]))},
        'p5': 100000,
        'big': {'i': str(r.choice([10 ** 40 + 7, 3 ** 200, 12345678901234567890 ** 3, -(7 ** 150)]))},
        'huge': {'i': str(r.choice([9 ** 400, 10 ** 399 + 1]))},
        'f': {'f': repr(r.choice([0.5, 1.5, 2.0, 0.1, 1e308, 5e-324, -3.25, 1e16]))},
        'g': {'f': repr(r.choice([3.0, 1e-300, 7.25]))},
        't': r.random() < 0.5,
        'd': {'d': r.choice(['1.5', '2', '0.001', '123456789.123456789', '-7'])},
        'e': {'d': r.choice(['1E+5000', '1E-5000', '9.99E+4000', '1E+50', '-1E+100', '1E+28'])},
        'm': {'d': r.choice(['1234567890123456789012345678901234567890', '1.234567890123456789012345678901234567890'])},
        'w': {'d': r.choice(['3', '10', '0', '0.5'])},
        'hs': {'isub': str(r.choice([2 ** 64 - 1, 10 ** 18 + 3, 12345678901234567890123]))},        # int subclass instances
        'hs2': {'isub': str(r.choice([10 ** 15 + 1, 7, 2 ** 62 + 1]))},
        'he': {'ienum': str(r.choice([10 ** 17 + 9, 2 ** 63, 3]))},                                 # an IntEnum member
        'l101': {'rep': [{'d': r.choice(['1234567890123456789012345678', '9999999999999999999999999999', '0.000000000000000000000000001'])}, 101]},
        'l150i': {'rep': [{'i': str(r.choice([10 ** 17 + 3, 2 ** 63 + 11]))}, 150]},
        'dl80': [{'i': str(10 ** 20 + 7 * i + 1)} for i in range(80)],
        's': 'ab',
        'l': [1, 2],
        'c': {'m': [['k', r.choice([3, {'d': '2.5'}, {'i': str(10 ** 30)}, 'ab', [1]])], ['q', {'d': '4'}]]},
    }
    return {'names': names}


def _operand(r):
    x = r.random()
    if x < 0.8:
        return ['name', r.choice(VARS)]
    if x < 0.9:
        return gen.num_tree(r)
    return ['name', r.choice(['s', 'l', 'r'])]


def _gen_op(r):
    k = weighted(r, [('bin', 7), ('short', 5), ('setitemop', 3), ('neg', 1), ('builtin', 5), ('chain', 1.5), ('nested', 1), ('rebound', 0.8)])
    if k == 'nested' and r.random() < 0.3:
        # eighty DIFFERENT host ints go through one multiplication each (whatever table or cache sits behind the operator
        # sees more distinct operands than it was sized for)
        return {'kind': 'manymul', 'op': '*', 'prog': ['assign', 'r3', ['call', 'map', [['name', 'dl80'], ['lambda', ['v'], ['bin', '*', ['name', 'v'], ['name', r.choice(['k', 'k2', 'hs'])]]]], 'plain']]}
    if k == 'nested':
        # inside a reduce / map / sum the host function nest(a, b) evaluates "p * q / 3" on the SAME parser (an
        # evaluation of its own, in the middle of this one): that product obeys the same bound
        a, b = ['name', r.choice(['k', 'k2', 'm', 'd', 'big'])], ['name', r.choice(['k', 'm47', 'd', 'm'])]
        form = r.choice(['reduce', 'map', 'sum', 'plain'])
        if form == 'reduce':
            e = ['call', 'reduce', [['list', [a, b, a]], ['lambda', ['p', 'q'], ['call', 'nest', [['name', 'p'], ['name', 'q']], 'plain']]], 'plain']
        elif form == 'map':
            e = ['call', 'map', [['list', [a, b]], ['lambda', ['v'], ['call', 'nest', [['name', 'v'], b], 'plain']]], 'plain']
        elif form == 'sum':
            e = ['call', 'sum', [['list', [['call', 'nest', [a, b], 'plain'], ['num', '1']]]], 'plain']
        else:
            e = ['call', 'nest', [a, b], 'plain']
        return {'kind': 'nested', 'op': form, 'prog': ['assign', 'r2', e]}
    if k == 'rebound':
        # the program binds a numeric builtin's name to a lambda of its own (it returns a host int as it is); products and
        # powers of what that lambda returns are decimal arithmetic like any other
        f = r.choice(['abs', 'int', 'round', 'floor', 'ceil', 'float'])
        hv = r.choice(['k', 'k2', 'i', 'hs', 'he', 'm47', 's'])
        op = r.choice(['*', '**', '*'])
        rhs = ['call', f, [['num', '2']], 'plain'] if op == '*' else ['num', '2']
        prog = ['block', [['assign', f, ['lambda', ['v'], ['name', hv]]], ['assign', 'r', ['bin', op, ['call', f, [['num', '1']], 'plain'], rhs]]]]
        return {'kind': 'rebound', 'op': op, 'prog': prog, 'builtin': f}
    if k == 'bin':
        op = r.choice(['+', '-', '*', '/', '**', '*', '**'])
        a = _operand(r)
        b = _operand(r)
        if op == '**':
            x = r.random()
            if x < 0.55:
                b = ['num', str(r.randint(0, 40))]
            elif x < 0.85:
                b = ['name', r.choice(SMALL_EXPONENTS)]
            else:
                # a power whose exact value has a million digits: decimal arithmetic must overflow (an arithmetic error)
                a, b = ['name', r.choice(['b10', 'i'])], ['name', 'p5']
        return {'kind': 'bin', 'op': op, 'prog': ['assign', 'r', ['bin', op, a, b]]}
    if k == 'short':
        op = r.choice(['+=', '-=', '*=', '/=', '*=', '*=', '**='])
        tgt = r.choice(VARS + ['s', 'l', 'r'])
        operand = _operand(r)
        if op == '**=':
            operand = ['name', r.choice(SMALL_EXPONENTS)] if r.random() < 0.8 else ['num', str(r.randint(0, 9))]
        return {'kind': 'short', 'op': op, 'prog': ['short', tgt, op, operand]}
    if k == 'setitemop':
        op = r.choice(['+=', '-=', '*=', '/=', '*=', '**='])
        operand = _operand(r)
        if op == '**=':
            operand = ['name', r.choice(SMALL_EXPONENTS)]
        return {'kind': 'setitemop', 'op': op, 'prog': ['setitemop', ['name', 'c'], ['str', r.choice(['k', 'q'])], op, operand]}
    if k == 'neg':
        return {'kind': 'neg', 'op': 'neg', 'prog': ['assign', 'r', ['neg', _operand(r)]]}
    if k == 'chain':
        v = r.choice(['i', 'big', 'd', 'm', 'r'])
        op = r.choice(['*=', '+=', '*='])
        return {'kind': 'short', 'op': op, 'prog': ['short', v, op, ['name', v]], 'chain': True}
    f = r.choice(['int', 'float', 'round', 'floor', 'ceil', 'abs', 'sum', 'min', 'max', 'round2'])
    a = _operand(r)
    if f == 'sum' and r.random() < 0.25:
        args = [['name', r.choice(['l101', 'l150i'])]]        # more than a hundred addends
    elif f == 'sum':
        args = [['list', [_operand(r) for _ in range(r.randint(1, 5))]]]
    elif f in ('min', 'max'):
        args = [a, _operand(r)]
    elif f == 'round2':
        f = 'round'
        args = [a, ['num', str(r.randint(0, 6))]]
    else:
        args = [a]
    return {'kind': 'builtin', 'op': f, 'prog': ['assign', 'r', ['call', f, args, gen.sugar(r, len(args))]]}


def generate(seed, tier):
    S = Streams(seed)
    rc, ro = S['config'], S['ops']
    world = _world(rc)
    ops = []
    for _ in range(rc.randint(5, 30)):
        op = _gen_op(ro)
        op['op_'] = 'eval'
        op['style'] = gen.style(S['render'])
        ops.append(op)
    return {'world': world, 'ops': ops}


def _val(names, tree):
    if tree[0] == 'name':
        return names.get(tree[1], None)
    if tree[0] == 'num':
        return Decimal(tree[1])
    if tree[0] == 'neg':
        v = _val(names, tree[1])
        return -v if isinstance(v, Decimal) else None
    if tree[0] == 'str':
        return tree[1]
    return None


def _safe_repr(v):
    try:
        return repr(v)[:80]
    except ValueError:
        return '<%s of %d digits>' % (type(v).__name__, canon.digits(v))


def _is_num(v):
    return isinstance(v, (int, float, Decimal))


def execute(case, ctx):
    names = {k: lang.dec_value(v) for k, v in case['world']['names'].items()}
    parser = boot.fresh_parser()
    judged = 0
    interesting = False
    nested_log = []

    def nest(a, b):
        with monitors.suspended():
            try:
                v = parser.eval('p * q / 3', {'p': a, 'q': b}, max_ops_evaluated=50)
            except Exception:
                return 0
        nested_log.append((a, b, v))
        return v
    nest._sim_kind = 'host:nest'
    names['nest'] = nest
    for step, op in enumerate(case['ops']):
        ctx.step = step
        # exponents stay capped at +-5000 along the chain too (a value like 1E+999972 fed to int / round is the listed
        # known finding and takes half a minute): the host clamps what a step left behind
        for k_, v_ in list(names.items()):
            if isinstance(v_, Decimal) and v_.is_finite() and v_ != 0 and abs(v_.adjusted()) > 5000:
                names[k_] = Decimal('1E+5000') if v_.adjusted() > 0 else Decimal('1E-5000')
                ctx.stats['clamped_exponent'] += 1
        cq = names.get('c')
        if isinstance(cq, dict):
            for k_, v_ in list(cq.items()):
                if isinstance(v_, Decimal) and v_.is_finite() and v_ != 0 and abs(v_.adjusted()) > 5000:
                    cq[k_] = Decimal('1E+5000') if v_.adjusted() > 0 else Decimal('1E-5000')
        prog = op['prog']
        src = lang.render(prog, op.get('style', 0))
        kind = op['kind']
        ctx.op_kind(kind + ':' + op['op'])
        # operands as the host sees them before the call
        if kind == 'bin':
            operands = [_val(names, prog[2][2]), _val(names, prog[2][3])]
        elif kind == 'neg':
            operands = [_val(names, prog[2][1])]
        elif kind == 'short':
            operands = [names.get(prog[1]), _val(names, prog[3])]
        elif kind == 'setitemop':
            operands = [names['c'].get(prog[2][1]), _val(names, prog[4])]
        else:
            operands = []
        rec = monitors.Rec()
        rec.builtin_hooks = (hooks.c04_builtin_post,)
        rec.pre_builtin_hooks = ()
        rout = real_eval(parser, src, names, budget=5000, rec=rec)
        ctx.event(step, kind, op['op'], rout.kind, canon.digest(rout.brief()))
        ctx.state(canon.digest([kind, op['op'], rout.kind, [type(o).__name__ for o in operands], [min(hooks.d_arg(o), 500) if _is_num(o) else -1 for o in operands]]))
        what = 'step %d %r with operands %s' % (step, src[:120], hooks.brief_args(operands))
        if rout.kind == 'base':
            ctx.report('non_exception_escaped', '%s: %r' % (what, rout.exc), {'kind': 'non_exception_escaped'})
        for f in rec.findings:
            if f[0] == 'number_blowup':
                ctx.report('number_blowup', 'step %d %r: %s returned a number of %d significant digits; its widest numeric argument has %d (%s)' % (
                    step, src[:120], f[1], f[3], f[4], f[5]), {'kind': 'number_blowup', 'site': f[1], 'cause': f[2]})
        if kind == 'builtin':
            ctx.probe('numeric_builtin')
            ctx.stats['builtin:' + op['op']] += 1
        for o in operands:
            if isinstance(o, bool):
                pass
            elif isinstance(o, int):
                ctx.probe('long_int_operand' if canon.digits(o) > 28 else 'host_int_operand')
                interesting = True
            elif isinstance(o, float):
                ctx.probe('float_operand')
                interesting = True
            elif isinstance(o, Decimal) and o.is_finite() and abs(o.adjusted()) > 1000:
                ctx.probe('big_exponent_operand')
                interesting = True
        for (a_, b_, v_) in nested_log:
            ctx.probe('nested_eval_product')
            ctx.fault('reentry')
            if _is_num(v_) and not isinstance(v_, bool) and _is_num(a_) and _is_num(b_) and not (isinstance(v_, Decimal) and not v_.is_finite()):
                widest = max(hooks.d_arg(a_), hooks.d_arg(b_))
                if hooks.d_res(v_) > max(28, widest + 1):
                    ctx.report('number_blowup', '%s: the nested evaluation of p * q / 3 (host function called from inside this one) returned %d significant digits; '
                               'its widest operand has %d' % (what, hooks.d_res(v_), widest), {'kind': 'number_blowup', 'site': 'nested_eval', 'cause': 'operator'})
        del nested_log[:]
        if kind == 'rebound':
            res = names.get('r')
            names.pop(op.get('builtin'), None)        # the host takes the program's binding away again
            ctx.probe('builtin_name_rebound_by_program')
            if rout.kind == 'value' and not isinstance(res, Decimal):
                ctx.report('mul_pow_not_decimal', '%s: %s returned %s %s, not a Decimal' % (what, op['op'], type(res).__name__, _safe_repr(res)),
                           {'kind': 'mul_pow_not_decimal', 'form': 'rebound', 'op': op['op']})
            judged += 1
            continue
        if kind == 'manymul':
            ctx.probe('many_distinct_operands')
            res = names.get('r3')
            if rout.kind == 'value' and isinstance(res, list):
                for x in res:
                    if not isinstance(x, Decimal):
                        ctx.report('mul_pow_not_decimal', '%s: one of the %d products is %s %s, not a Decimal' % (what, len(res), type(x).__name__, _safe_repr(x)),
                                   {'kind': 'mul_pow_not_decimal', 'form': 'manymul', 'op': '*'})
                    elif x.is_finite() and len(x.as_tuple().digits) > 28:
                        ctx.report('number_blowup', '%s: one of the products has %d significant digits' % (what, len(x.as_tuple().digits)),
                                   {'kind': 'number_blowup', 'site': 'bin:*', 'cause': 'operator'})
            names.pop('r3', None)
            judged += 1
            continue
        if kind == 'nested':
            judged += 1
            continue
        if rout.kind != 'value':
            ctx.probe('arithmetic_error')
            if kind in ('bin', 'short', 'setitemop') and op['op'] in ('*', '*=', '**', '**=') and operands and not all(_is_num(o) for o in operands):
                ctx.probe('mul_on_non_number_refused')
            judged += 1
            continue
        # the stored result, seen from the host side
        if kind in ('bin', 'neg', 'builtin'):
            res = names.get('r')
        elif kind == 'short':
            res = names.get(prog[1])
        else:
            res = names['c'].get(prog[2][1])
        judged += 1
        if kind == 'builtin':
            continue            # judged by the builtin monitor above (arguments are known exactly there)
        if op['op'] in ('*', '**', '*=', '**='):
            if op['op'] == '*=':
                ctx.probe('compound_index_mul' if kind == 'setitemop' else 'compound_mul')
            if op['op'] == '**':
                ctx.probe('pow')
            if not isinstance(res, Decimal):
                ctx.report('mul_pow_not_decimal', '%s: %s returned %s %s, not a Decimal (multiplication / exponentiation must compute in '
                           'decimal arithmetic or raise, and never repeat strings or lists)' % (what, op['op'], type(res).__name__, _safe_repr(res)),
                           {'kind': 'mul_pow_not_decimal', 'form': kind, 'op': op['op']})
                continue
        if _is_num(res) and not isinstance(res, bool) and all(_is_num(o) for o in operands) and operands:
            if isinstance(res, Decimal) and not res.is_finite():
                continue
            widest = max(hooks.d_arg(o) for o in operands)
            d = hooks.d_res(res)
            if d > max(28, widest + 1):
                ctx.report('number_blowup', '%s: %s returned a number of %d significant digits; its widest operand has %d' % (what, op['op'], d, widest),
                           {'kind': 'number_blowup', 'site': '%s:%s' % (kind, op['op']), 'cause': 'operator'})
    if judged >= 5:
        ctx.probe('chain5')
        if interesting:
            ctx.nontrivial = True


def simplify(case):
    return
    yield


def sample(case):
    return {'world': case['world'], 'ops': [lang.render(o['prog'], 0) for o in case['ops']][:12]}
