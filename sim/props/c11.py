"""C11 - history independence: every call depends only on its own arguments (DESIGN.md section 5, C11).

Simulated: one long-lived SqParser is driven through a seeded history of parse / eval / list_names calls, a large
share of which fail or are cut short: invalid sources of every constructed kind, failing programs, op-budget
aborts, list_names generators abandoned after j items (dropped or kept suspended), asynchronous kills at the k-th
line event inside the package (lexer, yacc.parse, p_code with a half-built tree, evaluation), re-entry from a host
callback in the middle of an evaluation, 2-3 interleaved names mappings. Oracle: a parallel universe - every call is
also executed on a pristine parser of an independently imported copy of the package whose module-level state is
reset before each call (no history of any kind), against that universe's own evolving copies of the names
mappings; result, exception class and message, and names afterwards must be equal.
"""
import collections
import copy

from .. import boot, canon, gen, lang, history, monitors, badsrc, hooks
from ..proggen import ProgGen, type_of
from ..rng import Streams, weighted
from ..seams import SimKill, TraceKill, ENTROPY
from ..world import Host, classify
from .. import seams

ID = 'C11'
LEVEL = 'exploration'
TIERS = {'quick': 4000, 'thorough': 60000}
WALL_CAP = 180
RULE = ('seeded histories of 8-40 parse/eval/list_names calls on ONE SqParser over valid, lexically invalid, '
        'syntactically invalid (unbalanced brackets both ways, premature end, reserved words, stray tokens, '
        'unterminated strings) and failing programs; faults: budget_abort, gen_abandon (j items, dropped or kept '
        'suspended), trace_kill at the k-th line event under smartquery/, reentry from a host callback, foreign_names '
        '(2-3 interleaved mappings, some persisting). Every call is compared with the same call in a history-free twin '
        'universe (second import of the package, module state reset per call, pristine parser). non-trivial = a fault '
        'fired and a later call was compared in full; distinct by sha256 of the case')
ASSUMPTIONS = ['a deep copy of a never-used SqParser is equivalent to a freshly constructed one (cross-checked against real constructions on a sample of calls)',
               'a killed call runs on a scratch copy of its names mapping that is discarded in both universes (the property is about what the parser remembers)',
               'a list_names generator resumed after another call is not judged']
REAL = ['smartquery.* (two independently imported copies)', 'smartquery.ply', 'stdlib random algorithms']
STUB = ['host callbacks', 'entropy source (re-seeded identically before each call in both universes)']
REACH_PROBES = ('kill_inside_yacc_parse', 'kill_inside_lexer', 'kill_inside_rules', 'kill_inside_eval', 'paren_count_nonzero_before_next_call',
                'gen_abandoned_midway', 'budget_abort', 'reentry', 'fault_then_compared', 'foreign_names_switch',
                'fresh_construction_crosscheck', 'bad_source_error', 'deferred_listing_read', 'host_calls_stored_lambda')
THOROUGH_PROBES = ('kill_sweep_case',)


def _world(r):
    spaces = []
    for _ in range(r.randint(1, 3)):
        names = {}
        for nm in r.sample(['a', 'b', 'c', 'x', 'y', 'z'], r.randint(0, 4)):
            names[nm] = gen.host_value_spec(r, 2, floats=False)
        if r.random() < 0.3:
            # a host value bound under the name of a builtin (host bindings override builtins - for this mapping only)
            names[r.choice(['len', 'max', 'str', 'sum', 'lower', 'sorted', 'list'])] = r.choice([7, 'host-value', [1]])
        spaces.append(names)
    w = {'spaces': spaces, 'host_fns': ['t', 're']}
    if r.random() < 0.3:
        w['cache'] = r.choice([{'kind': 'dict'}, {'kind': 'lru', 'bound': 3}])
    return w


def _valid_prog(r, env, arity):
    g = ProgGen(r, env, max_depth=r.choice([1, 2, 3]), fn_arity=arity, illtyped=0.05)
    prog = g.program(n_stmts=r.choice([1, 1, 2, 3, 4]))
    return prog


TABLE = ('len int float str list dict startswith endswith lower upper strip replace match match_groups match_all pretty keys '
         'values items sum get map filter reduce join split round floor ceil abs min max rand push pop insert remove sorted '
         'reversed enumerate shuffle index_of').split()


def _exerciser_prog(r, names):
    from .. import exerciser
    if r.random() < 0.2:
        # the result of a search is changed in place as an unbound temporary; the same search may come again later
        pat = r.choice(['\\d+', '[a-z]', '(\\w)(\\d)', 'b'])
        subj = r.choice(['a1 b22 c', 'ab12', 'x9 y8'])
        call = ['call', r.choice(['match_all', 'match_groups']), [['str', subj], ['str', pat]], gen.sugar(r, 2)]
        return ['block', [r.choice([['call', 'push', [call, ['num', '99']], gen.sugar(r, 2)], ['call', 'pop', [call], gen.sugar(r, 1)],
                                    ['call', 'insert', [call, ['num', '0'], ['str', 'z']], 'plain'], call, call])]]
    if r.random() < 0.1:
        # a builtin that fails half-way through nested data, and the same builtin on plain data (before or after)
        nested = ['dict', [[['str', 'a'], ['dict', [[['str', 'b'], ['num', '1']]]]], [['str', 'c'], ['num', '2']]]]
        flat = ['dict', [[['str', 'bread'], ['num', '1']], [['str', 'milk'], ['num', '2']]]]
        return ['block', [r.choice([['call', 'pretty', [nested, ['num', '2']], gen.sugar(r, 2)], ['call', 'pretty', [flat], gen.sugar(r, 1)],
                                    ['call', 'pretty', [flat], 'pipebare'], ['call', 'pretty', [nested], gen.sugar(r, 1)],
                                    ['call', 'pretty', [nested, ['list', []]], 'plain'], ['call', 'sorted', [nested, ['num', '1']], 'plain'],
                                    ['call', 'join', [['list', [['list', []], nested]], ['num', '0']], 'plain']])]]
    t = None
    for d in range(r.choice([1, 2, 2, 3])):
        nm = r.choice(TABLE)
        args = exerciser.known_args(r, nm) if nm in exerciser.KNOWN_SHAPES and r.random() < 0.8 else exerciser.shapes(r, (), (), no_functions=nm in exerciser.KEYED)
        # the exerciser's host names are not bound here: spell them as literals
        args = [_lit(r, a) for a in args]
        if t is not None:
            args = [t] + args[1:] if args else [t]
        t = ['call', nm, args, gen.sugar(r, len(args))]
    return ['block', [t]]


LITS = {'L': ['list', [['num', '3'], ['num', '1'], ['num', '2']]], 'LS': ['list', [['str', 'b'], ['str', 'a']]], 'NL': ['list', [['list', [['num', '2']]], ['list', []]]],
        'D': ['dict', [[['str', 'b'], ['num', '2']], [['str', 'a'], ['num', '1']]]], 'ND': ['dict', [[['str', 'x'], ['list', [['num', '1']]]], [['str', 'y'], ['dict', [[['str', 'k'], ['str', 'v']]]]]]],
        'S': ['str', 'a1 b22 c'], 'N': ['num', '2.5'], 'I': ['num', '7'], 'E': ['list', []], 'HL': ['list', [['list', [['num', '1']]], ['str', 'x']]]}


def _lit(r, a):
    if isinstance(a, list) and a and a[0] == 'name':
        return LITS.get(a[1], ['str', 'hello'] if a[1].startswith('%') else a)
    if isinstance(a, list):
        return [_lit(r, x) if isinstance(x, list) else x for x in a]
    return a


CANARIES = ['1 / 3', '2 ** 0.5', '10 / 7 * 3', '1 / 3 + 0.1 * 3', '(2 / 3) | round(3)', '1234567.891 | pretty', '[3, 1, 2] | sorted', '"a b  c" | split',
            '{"b": 1, "a": [1, 2]} | pretty', 'match("Ab1", "b\\d", "i")', '[1 / 7, 2 / 7] | sum', '100 / 3 | str', '0.1 + 0.2', '2 ** 100', '(1 / 3) * 3 == 1',
            '3 ** -3000000', '(1 / 3) ** 2500000', '10 ** 999999 * 10', '"x" + 1 / 3', 'k9 = (a, v) => [push(a, v), len(a)][1]\nk9([], 1)', 'k8 = (dd, v) => [__setitem__(dd, "k" + v, v), len(dd)][1]\nk8({}, 1)',
            'k7 = (a, v) => [insert(a, 0, v), a][1]\nk7([], 2)', 'k6 = a => [push(a, 9), len(a)][1]\nk6([1, 2])', 'get({"q": 1}, "zz", []) | push(3)', '[1, 2, 3] | map(v => v / 3) | max', '7 | float', '"1.10" | float', '1 / 3 | floor', '-7 / 2 | round']


def generate(seed, tier):
    S = Streams(seed)
    rc, ro, rf = S['config'], S['ops'], S['faults']
    world = _world(rc)
    faulty = rc.random() < 0.85          # a share of runs has every fault kind disabled
    models = [history.model_only({'names': sp, 'host_fns': []}) for sp in world['spaces']]
    pool = []
    ops = []
    for i in range(rc.randint(8, 40)):
        si = ro.randrange(len(world['spaces']))
        m = models[si]
        if ops and rf.random() < (0.14 if world.get('cache') else 0.06):
            # outside any call of the parser the host calls a lambda an earlier evaluation left in this names mapping
            ops.append({'op': 'hostcall', 'space': si, 'which': rf.randrange(4), 'arg': rf.choice([0, 1, 2, 'a']), 'src': ''})
            continue
        env = {k: type_of(v) for k, v in m.host.items()}
        arity = {k: len(v.params) for k, v in m.host.items() if getattr(v, '_sim_kind', '') == 'lambda'}
        if pool and ro.random() < (0.45 if world.get('cache') else 0.3):
            src_prog, src = ro.choice(pool)
        elif ro.random() < 0.3:
            # any entry of the builtin table (regex, random, pretty ... included), results piped into further builtins,
            # mutators among them: whatever a call leaves behind in process-wide state must not reach a later call
            src_prog = _exerciser_prog(ro, sorted(env))
            src = lang.render(src_prog, gen.style(S['render']))
            pool.append((src_prog, src))
        else:
            src_prog = _valid_prog(ro, env, arity)
            src = lang.render(src_prog, gen.style(S['render']))
            pool.append((src_prog, src))
        kind = weighted(ro, [('eval', 6), ('parse', 3), ('list_names', 3)])
        op = {'op': kind, 'space': si, 'src': src}
        bad = faulty and rf.random() < 0.4
        if bad:
            bk, text = badsrc.make_bad(rf, src)
            op['src'] = text
            op['bad'] = bk
        if ops and ops[-1]['op'] != 'hostcall' and ro.random() < 0.12:
            # the very text of the previous call (valid or not) goes through another entry point right away
            prev = ops[-1]
            op['src'] = prev['src']
            op['op'] = kind = ro.choice([k_ for k_ in ('eval', 'parse', 'list_names') if k_ != prev['op']])
            op.pop('bad', None)
            bad = bool(prev.get('bad'))
            if bad:
                op['bad'] = prev['bad']
            src_prog = prev_prog
        if kind == 'eval':
            if ro.random() < 0.08:
                op['no_names'] = True       # the names argument is omitted altogether
            if faulty and rf.random() < 0.12:
                op['budget'] = rf.randint(1, 30)
            if faulty and rf.random() < 0.08 and not bad:
                op['src'] = 're(%s) ; %s' % (lang.render_string(ro.choice(pool)[1]) if '\\' not in ro.choice(pool)[1] and '\n' not in ro.choice(pool)[1] else '"1 + 1"', src) if False else op['src']
                op['reenter'] = ro.choice(pool)[1]
            if not bad and not op.get('budget') and not op.get('no_names'):
                m.run(src_prog)
        if kind == 'list_names' and faulty and rf.random() < 0.45:
            op['consume'] = rf.randint(0, 4)
            op['keep_suspended'] = rf.random() < 0.5
        elif kind == 'list_names' and faulty and rf.random() < 0.3:
            op['defer'] = True       # the listing is requested now and read only after the next call(s) on the same parser
        if faulty and rf.random() < 0.15:
            op['kill_at'] = int(2 ** rf.uniform(0, 11))
        op['entropy'] = ro.randrange(2 ** 32)
        ops.append(op)
        prev_prog = src_prog
        if (op.get('bad') or op.get('budget') or op.get('kill_at')) and rf.random() < 0.4 or rf.random() < 0.04:
            # a canary right after a call that went wrong: small programs whose result shows process-wide state a failed call
            # may have left behind (arithmetic precision, rounding, regex flags, sort order, text of numbers)
            ops.append({'op': 'eval', 'space': si, 'src': rf.choice(CANARIES), 'entropy': rf.randrange(2 ** 32), 'canary': True})
    case = {'world': world, 'ops': ops}
    if tier == 'thorough' and rc.random() < 0.04:
        # kill-point enumeration on a short history
        ops = [dict(o) for o in ops[:rc.randint(3, 7)] if o['op'] != 'hostcall']
        for o in ops:
            o.pop('kill_at', None)
        case = {'world': world, 'ops': ops, 'kill_sweep': rc.randrange(max(1, len(ops) - 1))}
    return case


class Universe:
    def __init__(self, cfg, twin):
        self.twin = twin
        self.host = Host()
        self.spaces = []
        for sp in cfg['spaces']:
            names = {k: lang.dec_value(v) for k, v in sp.items()}
            names.update(self.host.fns(['t']))
            self.spaces.append(names)
        self.parser = None if twin else boot.fresh_parser(seams.make_cache(cfg.get('cache')))
        self.suspended = []
        self.tainted = False

    def parser_for_call(self):
        return boot.twin_parser() if self.twin else self.parser


def _call(U, op, names, kill=None):
    """Execute one public call in universe U. Returns signature list."""
    p = U.parser_for_call()
    src = op['src']
    ENTROPY.script(op.get('entropy', 0))
    kind = op['op']
    if not U.twin and kind == 'eval':
        rec = monitors.Rec()
        rec.track_kinds = False
        rec.value_hooks = (hooks.address_taint_hook,)
        with monitors.recording(rec):
            out = _call_inner(U, op, names, p, src, kind)
        if rec.tainted:
            U.tainted = True
        return out
    return _call_inner(U, op, names, p, src, kind)


def _call_inner(U, op, names, p, src, kind):
    try:
        if kind == 'eval':
            kw = {}
            if op.get('budget'):
                kw['max_ops_evaluated'] = op['budget']
            else:
                kw['max_ops_evaluated'] = 2000
            if op.get('reenter') is not None:
                inner = op['reenter']

                def re(*a):
                    U.host.reentries += 1
                    try:
                        return p.eval(inner, {}, max_ops_evaluated=300)
                    except Exception as e:
                        return 'inner-error:' + type(e).__name__
                re._sim_kind = 'host:re'
                names = names if names is not None else {}
                names['re'] = re
                src = 're()\n' + src
            if op.get('no_names') and op.get('reenter') is None:
                v = p.eval(src, **kw)
            else:
                v = p.eval(src, names, **kw)
            if op.get('reenter') is not None:
                names.pop('re', None)
            return ['value', canon.canon(v, monitors.M.fn_names)]
        if kind == 'parse':
            return ['value', repr(p.parse(src))]
        # list_names
        got = []
        g = p.list_names(src)
        it = iter(g)
        n = op.get('consume')
        try:
            if n is None:
                for x in it:
                    got.append(x)
            else:
                for _ in range(n):
                    try:
                        got.append(next(it))
                    except StopIteration:
                        break
                if op.get('keep_suspended'):
                    U.suspended.append(it)       # stays suspended, never resumed
                elif hasattr(it, 'close'):
                    it.close()
        except Exception as e:
            return ['exc', type(e).__module__ + '.' + type(e).__qualname__, canon.norm_msg(str(e)), got]
        return ['value', got]
    except SimKill:
        raise
    except BaseException as e:
        if type(e).__name__ in ('RunTimeout', 'RunTooBig'):
            raise
        if op.get('reenter') is not None and names is not None:
            names.pop('re', None)
        if not isinstance(e, Exception):
            return ['base', type(e).__name__, str(e)[:100]]
        return ['exc', type(e).__module__ + '.' + type(e).__qualname__, canon.norm_msg(str(e))]


def execute(case, ctx):
    if case.get('kill_sweep') is not None:
        return _kill_sweep(case, ctx)
    return _execute(case, ctx)


def _kill_sweep(case, ctx):
    """Thorough tier: the kill index of one call is ENUMERATED over all line events of that call (not sampled): for
    every k the history is replayed from scratch with the kill at k, and every later call is compared in full."""
    j = case['kill_sweep']
    ops = case['ops']
    # counting pass
    A = Universe(case['world'], twin=False)
    for op in ops[:j]:
        try:
            _call(A, op, A.spaces[op['space']] if op['op'] == 'eval' else None)
        except SimKill:
            pass
    tk = TraceKill(boot.PKGDIR, None)
    with tk:
        try:
            _call(A, ops[j], copy.deepcopy(A.spaces[ops[j]['space']]) if ops[j]['op'] == 'eval' else None)
        except SimKill:
            pass
    total = tk.count
    ks = list(range(1, total + 1)) if total <= 1500 else sorted(set(1 + (i * 7919) % total for i in range(1500)))
    ctx.stats['kill_points_enumerated'] += len(ks)
    ctx.probe('kill_sweep_case')
    for k in ks:
        sub = dict(case, ops=[dict(o) for o in ops])
        sub.pop('kill_sweep')
        for i, o in enumerate(sub['ops']):
            o.pop('kill_at', None)
        sub['ops'][j]['kill_at'] = k
        _execute(sub, ctx, quiet=True)
    ctx.nontrivial = True


def _read_deferred(ctx, pending):
    """Listings that were requested earlier (generator objects not started yet) are read now, after other calls went
    through the same parser: what they yield depends on the text they were requested for, nothing else."""
    while pending:
        step0, src, ga, gb = pending.pop(0)

        def drain(g):
            try:
                return ['value', list(g)]
            except Exception as e:
                return ['exc', type(e).__module__ + '.' + type(e).__qualname__, canon.norm_msg(str(e))]
        a = drain(ga)
        from .. import modstate
        modstate.reset(boot.SNAP_B)
        with boot.pristine_context():
            b = drain(gb)
        ctx.probe('deferred_listing_read')
        if a != b:
            ctx.report('history_dependent_result', 'list_names(%r) was requested at step %d and read after later calls on the same parser: it yielded %s, '
                       'on a pristine parser %s' % (src[:160], step0, str(a)[:200], str(b)[:200]), {'kind': 'history_dependent_result', 'call': 'list_names-deferred'})


def _execute(case, ctx, quiet=False):
    A = Universe(case['world'], twin=False)
    B = Universe(case['world'], twin=True)
    pending = []
    fault_before = False
    last_space = None
    for step, op in enumerate(case['ops']):
        ctx.step = step
        ctx.op_kind(op['op'] + (':bad' if op.get('bad') else '') + (':kill' if op.get('kill_at') else ''))
        si = op['space']
        if last_space is not None and si != last_space:
            ctx.fault('foreign_names')
            ctx.probe('foreign_names_switch')
        last_space = si
        lex = getattr(A.parser, 'lex', None)
        if getattr(lex, 'paren_count', 0) != 0:
            ctx.probe('paren_count_nonzero_before_next_call')
        if op.get('kill_at'):
            # the killed call works on a scratch copy of its names; nothing of it survives except the parser
            scratch = copy.deepcopy(A.spaces[si]) if op['op'] == 'eval' else None
            tk = TraceKill(boot.PKGDIR, op['kill_at'])
            try:
                with tk:
                    _call(A, op, scratch)
                ctx.event(step, 'kill_missed')
            except SimKill:
                ctx.fault('trace_kill')
                if boot.clear_active_marks():
                    ctx.stats['kill_left_evaluation_marked_active'] += 1      # killed inside the finally that clears the mark
                fn = tk.where[0] if tk.where else ''
                ctx.probe('kill_inside_yacc_parse' if fn == 'yacc.py' else 'kill_inside_lexer' if fn in ('lex.py', 'lexer.py')
                          else 'kill_inside_rules' if fn == 'rules.py' else 'kill_inside_eval')
                fault_before = True
                ctx.event(step, 'killed', tk.where)
            continue
        if op['op'] == 'hostcall':
            fa = sorted(k for k, v in A.spaces[si].items() if callable(v) and getattr(v, '_sim_kind', '') != 'host:t')
            fb = sorted(k for k, v in B.spaces[si].items() if callable(v) and getattr(v, '_sim_kind', '') != 'host:t')
            if fa and fa == fb and not A.tainted:
                nm = fa[op['which'] % len(fa)]

                def hc(f):
                    try:
                        return ['value', canon.canon(f(op['arg']), monitors.M.fn_names)]
                    except RecursionError:
                        return ['exc', 'RecursionError']
                    except Exception as e:
                        return ['exc', type(e).__module__ + '.' + type(e).__qualname__, canon.norm_msg(str(e))]
                a = hc(A.spaces[si][nm])
                from .. import modstate
                modstate.reset(boot.SNAP_B)
                with boot.pristine_context():
                    b = hc(B.spaces[si][nm])
                ctx.fault('call_outside_eval')
                ctx.probe('host_calls_stored_lambda')
                na = canon.canon(A.spaces, monitors.M.fn_names)
                nb = canon.canon(B.spaces, monitors.M.fn_names)
                if 'RecursionError' not in (a[1], b[1]) and (a != b or na != nb):
                    ctx.report('history_dependent_result', 'step %d: the host called the stored lambda %s(%r) outside any call: long-lived parser\'s world -> %s ; '
                               'pristine world -> %s%s' % (step, nm, op['arg'], str(a)[:200], str(b)[:200], '' if na == nb else ' ; names mappings differ afterwards'),
                               {'kind': 'history_dependent_result', 'call': 'hostcall'})
            continue
        if pending and pending[0][0] < step - 1 and not op.get('defer'):       # at least one other call went through in between
            _read_deferred(ctx, pending)
        if op.get('defer') and op['op'] == 'list_names' and not op.get('kill_at'):
            try:
                ga = A.parser.list_names(op['src'])
                gb = boot.twin_parser().list_names(op['src'])
                pending.append((step, op['src'], ga, gb))
                ctx.fault('listing_read_later')
            except Exception:
                pass
            continue
        a = _call(A, op, A.spaces[si] if op['op'] == 'eval' else None)
        with boot.pristine_context():
            b = _call(B, op, B.spaces[si] if op['op'] == 'eval' else None)
        if op['op'] == 'eval' and history.strings_too_big(A.spaces[si]):
            ctx.stats['stopped_string_growth'] += 1
            break
        if A.tainted:
            ctx.stats['stopped_after_address_text'] += 1
            break           # a program stringified a function: from here on the universes differ by memory addresses only
        ctx.event(step, op['op'], canon.digest(a))
        if a[0] == 'base':
            ctx.report('non_exception_escaped', 'step %d %s %r: %s' % (step, op['op'], op['src'][:160], a), {'kind': 'non_exception_escaped'})
        if (a[0] == 'exc' and 'RecursionError' in a[1]) or (b[0] == 'exc' and 'RecursionError' in b[1]):
            ctx.stats['skipped_recursion_depth'] += 1     # interpreter stack depth is not a property of the library
            continue
        if a != b:
            ctx.report('history_dependent_result',
                       'step %d %s(%r%s): on the long-lived parser -> %s ; on a pristine parser -> %s' % (
                           step, op['op'], op['src'][:200], ', budget=%s' % op['budget'] if op.get('budget') else '',
                           str(a)[:260], str(b)[:260]),
                       {'kind': 'history_dependent_result', 'call': op['op']})
        if op['op'] == 'eval':
            na = canon.canon(A.spaces[si], monitors.M.fn_names)
            nb = canon.canon(B.spaces[si], monitors.M.fn_names)
            if na != nb:
                ctx.report('history_dependent_names', 'step %d eval(%r): names afterwards differ from the pristine universe: %s vs %s' % (
                    step, op['src'][:200], str(na)[:260], str(nb)[:260]), {'kind': 'history_dependent_names'})
            if A.host.log != B.host.log:
                ctx.report('history_dependent_effects', 'step %d eval(%r): host probe logs differ' % (step, op['src'][:200]),
                           {'kind': 'history_dependent_effects'})
        # fault bookkeeping
        is_fault = False
        if a[0] == 'exc':
            is_fault = True
            if op.get('bad'):
                ctx.fault('bad_source')
                ctx.probe('bad_source_error')
            elif op.get('budget') and 'limit' in a[2].lower():
                ctx.fault('budget_abort')
                ctx.probe('budget_abort')
            else:
                ctx.fault('failing_program')
        if op.get('consume') is not None and a[0] == 'value':
            ctx.fault('gen_abandon')
            ctx.probe('gen_abandoned_midway')
            is_fault = True
        if op.get('reenter') is not None:
            ctx.fault('reentry')
            ctx.probe('reentry')
            is_fault = True
        if fault_before and not is_fault:
            ctx.nontrivial = True
            ctx.probe('fault_then_compared')
        fault_before = fault_before or is_fault
        # cross-check of the pristine copy against a real construction, on a small sample of calls
        if (op.get('entropy', 1) % 211) == 0 and not quiet:       # (not once per enumerated kill point)
            sq = boot.TWIN.SqParser
            from .. import modstate
            modstate.reset(boot.SNAP_B)
            fresh = sq()

            class F:
                twin = True
                host = Host()
                suspended = []

                @staticmethod
                def parser_for_call():
                    return fresh
            if op['op'] != 'eval':
                c = _call(F, op, None)
                ctx.probe('fresh_construction_crosscheck')
                if c != b:
                    ctx.report('pristine_copy_not_equivalent', 'step %d: deep copy of a never-used parser and a fresh construction disagree: %s vs %s' % (
                        step, str(b)[:200], str(c)[:200]), {'kind': 'pristine_copy_not_equivalent'})
    if pending:
        _read_deferred(ctx, pending)


def simplify(case):
    for i, op in enumerate(case['ops']):
        for f in ('kill_at', 'budget', 'reenter', 'consume'):
            if op.get(f) is not None:
                o2 = {k: v for k, v in op.items() if k != f}
                yield dict(case, ops=case['ops'][:i] + [o2] + case['ops'][i + 1:])
    sp = case['world']['spaces']
    if len(sp) > 1:
        ops = [dict(o, space=0) for o in case['ops']]
        yield dict(case, world=dict(case['world'], spaces=sp[:1]), ops=ops)


def sample(case):
    return [{k: v for k, v in o.items() if k != 'entropy'} for o in case['ops'][:10]]
