"""C07 - evaluation agrees with the reference semantics on every well-typed program (DESIGN.md section 5, C07).

Simulated: refinement against the executable reference model, eval by eval, over a persistent host names
mapping on one long-lived parser; the model's state is the only carry-over. Also: charged ops == performed
node evaluations (two independent counters of the same execution).
"""
from .. import gen, lang, history, monitors
from ..proggen import ProgGen, type_of
from ..rng import Streams

from ..model import runaway
from .. import canon

ID = 'C07'
LEVEL = 'exploration'
TIERS = {'quick': 30000, 'thorough': 1200000}
RULE = ('seeded histories of 1-6 eval calls over one persistent host names mapping (host-supplied ints, bools, '
        'floats, Decimals, strings, nested lists/dicts) on one long-lived SqParser; programs of 1-5 statements '
        'from a type-directed generator over every operator, statement form, slice form and modelled builtin '
        '(call/method/pipe sugar, lambdas incl. recursion and wrong arity, layout varied by the renderer); each '
        'eval compared with the reference model: value, ParserError-vs-other class, names afterwards, and '
        'ops charged == node evaluations counted by the monitor. non-trivial = at least two evals of the history '
        'were judged and the program contains a lambda call, a mutation or an error; distinct by sha256 of the case')
ASSUMPTIONS = ['differential check against sim/model.py, written from the property statements; breadth is the generator\'s',
               'text of stringified containers/functions, pretty(), rand/shuffle, regex builtins and *= on non-Decimal operands are outside the model (unspecified, not judged)',
               'model and system share CPython Decimal/list/dict/str']
REAL = ['smartquery.*', 'decimal', 'copy']
STUB = ['host (names mapping owner, probes t/call/attempt)']
REACH_PROBES = ('judged_value', 'judged_lang', 'judged_other', 'recursion', 'calluser', 'lambda', 'ops_counter_compared', 'ops_lower_bound_checked', 'second_names_mapping',
                'hostcall', 'reentrant_host_call', 'host_calls_stored_lambda')


def _world(r):
    names = {}
    for nm in r.sample(['a', 'b', 'c', 'x', 'y', 'z', '%my var%', 'цена'], r.randint(0, 5)):
        names[nm] = gen.host_value_spec(r, 2, floats=r.random() < 0.15)
    conts = [k for k, v in names.items() if isinstance(v, list) or (isinstance(v, dict) and 'm' in v)]
    if conts and r.random() < 0.3:
        names[r.choice(['acc', 'item', 'z'])] = {'alias': r.choice(conts)}     # one host object under two names
    fns = ['t', 'call', 'attempt'] if r.random() < 0.4 else []
    w = {'names': names, 'host_fns': fns}
    if r.random() < 0.2:
        # the host function re(i) calls back into the same parser in the middle of an evaluation
        w['host_fns'] = fns = fns + ['re']
        w['reentry'] = gen.reentry_specs(r, names)
    if r.random() < 0.3:
        w['second'] = {nm: gen.host_value_spec(r, 2, floats=False) for nm in r.sample(['a', 'b', 'c', 'x', 'y', 'z'], r.randint(0, 4))}
    if r.random() < 0.3:
        w['cache'] = r.choice([{'kind': 'dict'}, {'kind': 'lru', 'bound': 2}])
    if r.random() < 0.15:
        w['names_kind'] = r.choice(['defaultdict', 'counter', 'ordered'])     # the host's mapping is a dict subclass
    return w


def generate(seed, tier):
    S = Streams(seed)
    rc, ro = S['config'], S['ops']
    world = _world(rc)
    model = history.model_only(world)
    spaces = [model.host]
    if world.get('second') is not None:
        m2 = history.model_only({'names': world['second'], 'host_fns': world['host_fns']})
        spaces.append(m2.host)
        for k, v in list(m2.host.items()):
            if getattr(v, '_sim_kind', '').startswith('host:'):
                m2.host[k] = model.host[k]       # one set of host functions, one probe log
    arity = {}
    ops = []
    for _ in range(rc.randint(1, 6) if rc.random() < 0.93 else rc.randint(10, 14)):
        si = ro.randrange(len(spaces))
        cur = spaces[si]
        env = {k: type_of(v) for k, v in cur.items() if not getattr(v, '_sim_kind', '').startswith('host:')}
        arity = {k: len(v.params) for k, v in cur.items() if getattr(v, '_sim_kind', '') == 'lambda'}
        g = ProgGen(ro, env, max_depth=ro.choice([2, 3, 3, 4]), allow_host=world['host_fns'], fn_arity=arity,
                    probes=('t' in world['host_fns']) and ro.random() < 0.3, reentry=world.get('reentry'))
        if ro.random() < 0.1:
            # faults between the judged evaluations: a text that does not parse, or a list_names scan abandoned midway
            # (possibly inside an open bracket) on the same parser
            from .. import badsrc
            base = lang.render(g.program(), 0)
            if ro.random() < 0.6:
                bk, text = badsrc.make_bad(S['faults'], base)
                if bk not in ('premature_end', 'unbalanced_open', 'unbalanced_close', 'illegal_char', 'unterminated_string', 'reserved_word', 'opener'):
                    continue        # only texts that surely fail to parse (nothing of them may run)
                ops.append({'op': 'bad', 'src': text, 'space': si})
            else:
                ops.append({'op': 'scan', 'src': base, 'consume': S['faults'].randint(0, 3), 'space': si})
            continue
        if arity and ro.random() < 0.08:
            # between two evaluations the HOST calls a lambda a program left in this names mapping (no evaluation is in
            # progress): the body runs against the mapping as it is now
            f = ro.choice(sorted(arity))
            args = [ro.choice([0, 1, 2, 7]) for _ in range(arity[f])]
            ops.append({'op': 'hostcall', 'fn': f, 'args': args, 'space': si})
            from ..model import MErr, Unspec
            model.scopes = [model.builtins, cur]
            try:
                model.call_value(cur[f], list(args))
            except MErr:
                pass
            except Unspec:
                ops.pop()
                break
            except RecursionError:
                ops.pop()
                break
            continue
        if ops and ro.random() < 0.15 and any(o['op'] == 'eval' for o in ops):
            prev = ro.choice([o for o in ops if o['op'] == 'eval'])       # the same source text again, in a possibly different names state
            ops.append(dict(prev, space=si))
            prog = prev['prog']
        else:
            prog = g.program()
            if ro.random() < 0.03:
                # dynamic scoping at depth: the innermost of 35-70 recursive calls reads a parameter of the call that started it
                dpt = ro.choice([35, 45, 70])
                prog = ['block', [['assign', 'dn', ['lambda', ['p'], ['if', ['name', 'k9'], ['bin', '<=', ['name', 'p'], ['num', '0']],
                                                                     ['call', 'dn', [['bin', '-', ['name', 'p'], ['num', '1']]], 'plain']]]],
                                  ['assign', 'fd', ['lambda', ['k9', 'p'], ['call', 'dn', [['name', 'p']], 'plain']]],
                                  ['call', 'fd', [['str', 'started-here'], ['num', str(dpt)]], 'plain']]]
            ops.append({'op': 'eval', 'prog': prog, 'style': gen.style(S['render']), 'kinds': sorted(g.kinds), 'space': si})
        out = model.run(prog, names=cur if si else None)
        if runaway(out):
            ops.pop()        # a time / memory bomb for both worlds: not part of the history
        if out[0] == 'unspec':
            break
    return {'world': world, 'ops': ops}


def execute(case, ctx):
    W = history.World(case['world'])
    second = None
    if case['world'].get('second') is not None:
        # a second host names mapping served by the same parser and the same host functions
        rn = {k: lang.dec_value(v) for k, v in case['world']['second'].items()}
        mn = {k: lang.dec_value(v) for k, v in case['world']['second'].items()}
        for k in case['world'].get('host_fns', ()):
            rn[k] = W.names[k]
            mn[k] = W.model.host[k]
        second = (rn, mn)
    judged_n = 0
    interesting = False
    for step, op in enumerate(case['ops']):
        ctx.step = step
        if op['op'] == 'bad':
            try:
                W.parser.eval(op['src'], dict(second[0] if op.get('space') and second else W.names))
            except Exception:
                ctx.fault('bad_source')
            continue
        if op['op'] == 'hostcall':
            from ..model import MErr, Unspec
            from ..world import classify
            rn_, mn_ = (second if op.get('space') and second else (W.names, W.model.host))
            f, mf = rn_.get(op['fn']), mn_.get(op['fn'])
            if not callable(f) or mf is None:
                continue
            try:
                rv = ('value', canon.canon(f(*op['args']), monitors.M.fn_names))
            except RecursionError:
                break
            except BaseException as e:
                if type(e).__name__ in ('RunTimeout', 'RunTooBig', 'SimDeadlock'):
                    raise
                rv = (classify(e), type(e).__name__)
            W.model.scopes = [W.model.builtins, mn_]
            try:
                mv = ('value', canon.canon(W.model.call_value(mf, list(op['args']))))
            except MErr as e:
                mv = (e.kind, str(e))
            except (Unspec, RecursionError):
                break
            ctx.fault('call_outside_eval')
            ctx.probe('host_calls_stored_lambda')
            ctx.event(step, 'hostcall', rv[0], mv[0])
            if rv[0] != mv[0] and not (mv[0] == 'other' and rv[0] in ('lang', 'other')) or (rv[0] == 'value' and rv != mv):
                ctx.report('wrong_value' if rv[0] == mv[0] else 'unexpected_error', 'step %d: the host called the stored lambda %s%r outside any evaluation: model %s, system %s' % (
                    step, op['fn'], tuple(op['args']), str(mv)[:200], str(rv)[:200]), {'kind': 'hostcall_mismatch'})
            a = canon.canon(mn_)
            b = canon.canon(rn_, monitors.M.fn_names)
            if a != b:
                ctx.report('names_mismatch', 'step %d: after the host called %s%r the names mapping differs from the model' % (step, op['fn'], tuple(op['args'])), {'kind': 'names_mismatch'})
            continue
        if op['op'] == 'scan':
            try:
                it = iter(W.parser.list_names(op['src']))
                for _ in range(op['consume']):
                    next(it, None)
                ctx.fault('gen_abandon')
            except Exception:
                pass
            continue
        rec = monitors.Rec()
        if op.get('space') and second:
            ctx.probe('second_names_mapping')
            judged, rout, mout = W.eval_and_judge(ctx, op, step, rec=rec, names=second[0], mnames=second[1])
        else:
            judged, rout, mout = W.eval_and_judge(ctx, op, step, rec=rec)
        if not judged:
            break
        judged_n += 1
        ctx.probe('judged_' + mout[0])
        for k in op.get('kinds', ()):
            ctx.stats['kind:' + k] += 1
            if k in ('recursion', 'calluser', 'lambda', 'hostcall'):
                ctx.probe(k)
                interesting = True
        if mout[0] != 'value' or any(k in ('setitem', 'short', 'push', 'mut', 'del', 'setitemop') for k in op.get('kinds', ())):
            interesting = True
        if rout.kind == 'value' and mout[0] == 'value':
            # every syntax-tree node the reference semantics evaluate is an operation: the system may have MORE nodes
            # (placeholders, sugar) but never fewer - e.g. a fast path that returns a literal without evaluating anything
            ctx.probe('ops_lower_bound_checked')
            if rec.nodes < W.model.steps:
                ctx.report('fewer_operations_than_nodes', 'step %d %r: the reference semantics evaluate %d syntax-tree nodes, the system performed only %d '
                           'node evaluations (work that is not counted cannot be limited)' % (step, lang.render(op['prog'], op.get('style', 0))[:200], W.model.steps, rec.nodes),
                           {'kind': 'fewer_operations_than_nodes'})
        if rout.kind == 'value' and rec.foreign == 0 and rec.state0 is not None:
            charged = getattr(rec.state0, 'ops_evaluated', None)
            if isinstance(charged, int):
                ctx.probe('ops_counter_compared')
                if charged != rec.nodes:
                    ctx.report('charged_ne_performed', 'step %d %r: %d operations charged, %d node evaluations performed (%s)' % (
                        step, lang.render(op['prog'], op.get('style', 0))[:200], charged, rec.nodes, dict(rec.kinds)),
                        {'kind': 'charged_ne_performed'})
        ctx.op_kind(mout[0])
        ctx.state(W.state_digest())
    if W.host.reentries:
        ctx.fault('reentry', W.host.reentries)
        ctx.probe('reentrant_host_call')
    if judged_n >= 2 and interesting:
        ctx.nontrivial = True


def simplify(case):
    from ..shrink import simplify_trees
    yield from simplify_trees(case, None)
    names = case['world']['names']
    for k in list(names):
        nn = {a: b for a, b in names.items() if a != k}
        yield dict(case, world=dict(case['world'], names=nn))


def sample(case):
    return {'world': case['world'], 'ops': [lang.render(o['prog'], o.get('style', 0)) if 'prog' in o else o for o in case['ops']][:6]}
