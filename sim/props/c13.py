"""C13 - non-mutating builtins never modify their arguments (DESIGN.md section 5, C13).

Simulated (thin): the second party is the host whose objects are passed in. A monitor around every entry of the
live function table takes a cycle-safe deep snapshot (structure + identity of nested containers) of every argument
before the call and compares it after the call, whether the builtin returned or raised; independently the host
compares everything it supplied before and after every eval of a mutator-free program. The table entries other
than the mutators are enumerated from the live table and applied to lists, dicts, nested and host-supplied
containers (incl. dict subclasses that store on miss), with key functions and reverse flags, alone and in pipelines.
"""
import collections

from .. import boot, canon, gen, lang, monitors, hooks, exerciser
from ..rng import Streams, weighted
from ..seams import ENTROPY
from ..world import real_eval

ID = 'C13'
NEEDS_BUILTIN_WRAPPERS = True      # reads what the builtin monitor records (hooks / effect log)
LEVEL = 'exploration'
TIERS = {'quick': 16000, 'thorough': 400000}
RULE = ('seeded histories of 3-12 evals on one parser over one host names mapping (lists, dicts, nested, a host '
        'collections.defaultdict / OrderedDict, strings, numbers); each eval applies a non-mutator drawn from the LIVE '
        'function table (every entry except push pop insert remove __setitem__ __setitem_with_op__ __delitem__) to a '
        'known-good or random argument shape, as call / method / pipe, alone or in a pipeline of 2-3, with pure lambdas '
        'as key/mapping functions; oracle: monitor snapshot of every argument before == after for every builtin call '
        '(skipped only when a mutator ran nested inside it), and the host\'s deep snapshot of all names before == after '
        'the eval. non-trivial = a builtin call received a host container and returned or raised; distinct by sha256')
ASSUMPTIONS = ['an invariant over single calls; argument-shape breadth is input generation',
               'a lambda that itself calls a mutator is the lambda\'s doing (not generated in the own workload)']
REAL = ['smartquery.functions (every table entry)', 'evaluator']
STUB = ['host (owner of the objects passed in)', 'entropy source']
REACH_PROBES = ('big_nested_host_list', 'failed_multiline_parse', 'builtin_raised_with_container_arg', 'pipeline', 'host_defaultdict_arg', 'key_function', 'every_nonmutator_called', 'ast_built_lambda_over_records', 'mutator_on_fresh_result')


def _world(r):
    names = dict(exerciser.HOST_NAMES)
    return {'names': names, 'defaultdict': r.random() < 0.6}


def generate(seed, tier):
    S = Streams(seed)
    rc, ro = S['config'], S['ops']
    world = _world(rc)
    ops = []
    for _ in range(rc.randint(3, 12)):
        x = ro.random()
        if x < 0.015:
            # a host list just above 10000 elements nested in a container, reached through builtins that hand back a
            # reference into their argument
            ops.append({'op': 'src', 'src': ro.choice(['get(BIGD, "series") | len', 'BIGD["series"] | len', '(BIGD | values) | max | len',
                                                       '(BIGD | values) | reduce((p, q) => p) | len', 'BIGD | get("series") | index_of(3)',
                                                       '[BIGD["series"]] | min | len', 'BIGD | items | len']), 'entropy': 1})
            continue
        if x < 0.055 and x >= 0.03:
            # a mutator applied to the RESULT of a non-mutator that hands out a new container (sorted, reversed, shuffle, map,
            # filter, keys, values, items, enumerate, split, list): the temporary changes, the host's objects do not -
            # also when they hold 0 or 1 elements
            f = ro.choice(['sorted', 'reversed', 'shuffle', 'filter', 'map', 'keys', 'values', 'items', 'enumerate'])
            arg = ro.choice(['ONE', 'E', 'L', 'D1', 'ED', 'D', 'MIX', 'MIX', 'D100', 'L300'])
            if f in ('keys', 'values', 'items') and arg in ('ONE', 'E', 'L', 'MIX', 'L300'):
                arg = ro.choice(['D1', 'ED', 'D', 'D100'])
            if f in ('reversed', 'shuffle', 'filter', 'enumerate') and arg in ('D1', 'ED', 'D', 'D100'):
                arg = ro.choice(['ONE', 'E', 'L', 'MIX'])
            inner = {'filter': 'filter(%s, v => True)', 'map': 'map(%s, v => v)' if arg in ('ONE', 'E', 'L', 'MIX', 'L300') else 'map(%s, (k, v) => v)'}.get(f, f + '(%s)') % arg
            mut = ro.choice(['push(%s, 1)', '%s | push(2)', 'insert(%s, 0, 9)', 'pop(%s)', '%s | remove(7)', '(%s)[0] = 5', 'del (%s)[0]'])
            if f == 'sorted' and arg in ('D1', 'ED', 'D', 'D100'):
                mut = ro.choice(['remove(%s, "k")', '(%s)["n"] = 1', 'del (%s)["k"]'])
            ops.append({'op': 'src', 'fresh_temp': True, 'entropy': 1, 'src': mut % inner})
            continue
        if x < 0.03:
            # the host hands over a lambda built as a syntax tree (ast_names) whose body is a small PROGRAM - it assigns to
            # its parameters - and a non-mutator drives it over host records: the records stay as they are
            ops.append({'op': 'src', 'ast': True, 'entropy': 1,
                        'src': ro.choice(['DL | map(af)', 'map(DL, af)', 'DL | filter(af)', 'sorted(DL, af)', 'ND | map(af)', 'DL | map(af) | len'])})
            continue
        if x < 0.075:
            # a multi-line text rejected on its last line; whatever its first lines say must not run - now or later
            ops.append({'op': 'src', 'bad': True, 'entropy': 1,
                        'src': ro.choice(['push(L, 0)\nL | len )', 'L[0] = 99\n( L', 'pop(LS)\nLS | join(",") $', 'x = 1; remove(D, "a"); D | keys ]',
                                          'insert(NL, 0, 1)\n\nNL | len +',
                                          # rejected in the middle of a line (illegal character / reserved word after an operator)
                                          'pop(L) + $', 'push(L, 0) and @', 'L[0] = $', 'x = pop(LS) or ?', 'remove(D, "a") if ~', 'pop(NL) + for',
                                          'insert(L, 0, 9) == while', '[pop(L), $', 'NL[0] += `'])})
            continue
        ops.append({'op': 'apply', 'pick': ro.randrange(10 ** 6), 'shape_seed': ro.randrange(2 ** 32), 'pipeline': ro.random() < 0.3,
                    'known': ro.random() < 0.6, 'style': gen.style(S['render']), 'entropy': ro.randrange(2 ** 32)})
    return {'world': world, 'ops': ops}


def _build(op, nonmut, table_names, extra):
    from ..rng import RealRandom
    r = RealRandom(op['shape_seed'])
    name = nonmut[op['pick'] % len(nonmut)]

    def one(nm, first=None):
        if op['known'] and nm in exerciser.KNOWN_SHAPES:
            args = exerciser.known_args(r, nm)
        else:
            args = exerciser.shapes(r, extra, table_names, no_functions=nm in exerciser.KEYED)
        if first is not None:
            args = [first] + args[1:] if args else [first]
        return ['call', nm, args, gen.sugar(r, len(args))]
    t = one(name)
    names = [name]
    if op['pipeline']:
        for _ in range(r.randint(1, 2)):
            nm = r.choice(nonmut)
            names.append(nm)
            t = one(nm, first=t)
    return t, names


def execute(case, ctx):
    names = {k: lang.dec_value(v) for k, v in case['world']['names'].items()}
    names['ONE'] = [7]
    names['MIX'] = [3, 'a', 1, None]      # cannot be ordered: sorting it fails
    names['D1'] = {'k': 1}
    names['ED'] = {}
    extra = []
    if case['world'].get('defaultdict'):
        dd = collections.defaultdict(list)
        dd['a'] = [1]
        dd['b'] = [2, 3]
        names['HD'] = dd
        od = collections.OrderedDict([('z', 1), ('y', [2])])
        names['OD'] = od
        import types
        names['HO'] = types.SimpleNamespace(name='rec', items=[1, 2], _rev=7, _cache={'k': [1]})      # a host record with private fields
        extra = ['HD', 'OD', 'HO']
    parser = boot.fresh_parser()
    table = monitors.M.functions.FUNCTIONS
    nonmut = sorted(n for n in table if n not in monitors.MUTATORS)
    table_names = sorted(table)
    called = set()
    bigd = {'series': list(range(10001)), 'other': [1]}
    for step, op in enumerate(case['ops']):
        ctx.step = step
        if op['op'] == 'src':
            src, used = op['src'], ['src']
            tree = None
            ctx.probe('failed_multiline_parse' if op.get('bad') else 'big_nested_host_list')
        else:
            tree, used = _build(op, nonmut, table_names, extra)
            src = lang.render(tree, op.get('style', 0))
        ENTROPY.script(op.get('entropy', 0))
        rec = monitors.Rec()
        rec.pre_builtin_hooks = (hooks.c13_pre,)
        rec.builtin_hooks = (hooks.c13_post,)
        with_big = op['op'] == 'src' and 'BIGD' in src
        if with_big:
            names['BIGD'] = bigd          # only bound for the calls that use it (snapshots of 10^4 elements are slow)
        before = canon.snap(names)
        ast = None
        if op.get('ast'):
            from smartquery.ast_ops import LambdaOp, NameOp
            ast = {'af': LambdaOp(args=[NameOp('k'), NameOp('n')], expr=boot.fresh_parser().parse('k = 5\nn2 = 7\nk'))}
            ctx.probe('ast_built_lambda_over_records')
        rout = real_eval(parser, src, names, budget=20000, rec=rec, ast_names=ast)
        if ast:
            names.pop('af', None)
        after = canon.snap(names)
        names.pop('BIGD', None)
        ctx.event(step, used, rout.kind, canon.digest(rout.brief()))
        ctx.op_kind(used[0])
        ctx.state(canon.digest([used, rout.kind]))
        for f in rec.findings:
            if f[0] == 'argument_modified':
                ctx.report('argument_modified', 'step %d %r: builtin %s changed one of its arguments: before %s, after %s' % (
                    step, src[:200], f[1], f[2], f[3]), {'kind': 'argument_modified', 'builtin': f[1]})
        # judged by what the program SAYS: a text without any mutator (and every text that does not even parse) must
        # leave the host's objects alone, whatever actually ran
        says_mutator = op.get('bad') is None and (tree is not None and any(n in monitors.MUTATORS for n in lang.names_in(tree)))
        if op['op'] == 'src' and not op.get('bad'):
            says_mutator = False
        if op.get('fresh_temp'):
            ctx.probe('mutator_on_fresh_result')
        if after != before and not says_mutator and not any(f[0] == 'missing_store_skipped' for f in rec.findings):
            ctx.report('host_object_modified', 'step %d %r: %s, yet the host\'s objects changed: before %s, after %s' % (
                step, src[:200], 'the only mutator worked on the new container a non-mutator returned' if op.get('fresh_temp') else 'no mutator ran',
                hooks._short(before), hooks._short(after)), {'kind': 'host_object_modified', 'builtin': used[0]})
        for nm in rec.builtin_calls:
            ctx.stats['called:' + nm] += rec.builtin_calls[nm]
            called.add(nm)
        if any(n in src for n in ('L', 'D', 'H')):
            ctx.nontrivial = True
        if rout.kind != 'value':
            ctx.probe('builtin_raised_with_container_arg')
        if op.get('pipeline'):
            ctx.probe('pipeline')
        if 'HD' in src or 'OD' in src:
            ctx.probe('host_defaultdict_arg')
        if '=>' in src:
            ctx.probe('key_function')
    ctx.stats['distinct_builtins_called'] = max(ctx.stats['distinct_builtins_called'], len(called))


def post_batch(agg):
    called = sorted(k[7:] for k in agg['stats'] if k.startswith('called:'))
    from ..monitors import M, MUTATORS
    table = sorted(M.functions.FUNCTIONS)
    never = [n for n in table if n not in called and n not in MUTATORS and not isinstance(M.functions.FUNCTIONS[n], type)]
    if not never:
        agg['stats']['probe:every_nonmutator_called'] += 1
    return {'table_entries': len(table), 'nonmutators_called': len([c for c in called if c not in MUTATORS]), 'never_called': never}


def sample(case):
    return case['ops'][:4]
