"""C02 - sandbox confinement: programs only touch plain data and do no I/O (DESIGN.md section 5, C02).

Simulated: the simulator owns every I/O seam a program could reach (sys.addaudithook, armed only between entry and
exit of eval) and the host binds ONLY plain data. Histories over a persistent names mapping in which every value a
program obtains is stored and fed back into later operations ("obtain, store or return"): at each step a builtin is
picked from the LIVE function table, applied to current names, fresh literals, attribute-like and format-like
strings, other builtins and lambdas, and the result is stored with x = ... or c[k] = ... and composed 2-4 deep.
Monitor: plain-data type walk of the value returned by EVERY node evaluation, of the final result and of the names.
"""
from .. import boot, canon, gen, lang, monitors, hooks, exerciser
from ..rng import Streams, weighted, RealRandom
from ..seams import AUDIT, ENTROPY
from ..world import real_eval

ID = 'C02'
LEVEL = 'exploration'
TIERS = {'quick': 12000, 'thorough': 300000}
RULE = ('seeded histories of 4-16 evals on one parser over one persistent plain-data names mapping; each eval applies '
        '1-3 composed entries of the LIVE function table (all of them, mutators included) to current names incl. earlier '
        'results, literals, attribute-like / format-like strings, builtins and lambdas passed as values, slices and '
        'nested containers, and stores the result (x = ..., c[k] = ...); 3% of the runs evaluate on a really freshly '
        'constructed SqParser. Oracle: type walk (None bool int float Decimal str list tuple dict slice, table callables '
        'by identity, lambdas created by the program) of every node evaluation result, the final result and the names; '
        'no file/process/network/import/exec audit event while eval runs. non-trivial = a stored result of an earlier '
        'eval was fed into a later builtin application; distinct by sha256 of the case')
ASSUMPTIONS = ['input breadth is what the generator reaches (every table entry x the argument shapes of sim/exerciser.py x depth <= 3); a clean run is a sample',
               'lazy imports performed inside third-party/stdlib code on behalf of a builtin are recorded, not judged; import statements executed by smartquery code during eval are violations']
REAL = ['smartquery.* (evaluator, every builtin)', 'regex', 'decimal', 'copy']
STUB = ['host (binds plain data only)', 'I/O seam (audit hook)', 'entropy source']
REACH_PROBES = ('host_phase_then_plain', 'parse_failure_then_use', 'stored_result_reused', 'builtin_as_argument', 'attr_like_string', 'fresh_construction_eval', 'every_table_entry_applied',
                'audit_armed_evals', 'index_on_builtin', 'ops_limit_hit_under_audit', 'reentry_under_audit')


def generate(seed, tier):
    S = Streams(seed)
    rc, ro = S['config'], S['ops']
    ops = []
    host_phase = rc.random() < 0.25
    PHASE_TEXTS = ['fetch(1)', 'g(2)', 'r = fetch("x")\nr', 'g = n => fetch(n)\ng(3)', 'map([1, 2], g)', 'h = (a, b) => fetch(a)\nh(1, 2)']
    for _ in range(rc.randint(4, 16)):
        x = ro.random()
        if x < 0.07:
            # a text that does not parse, then further use of the same parser (all of it under the I/O seam)
            from .. import badsrc
            bk, text = badsrc.make_bad(ro, ro.choice(['x = [1, 2]\nlen(x)', 'f(1) + 2', '{"a": [1, (2)]}', 'a = 1; b = a + 1']))
            ops.append({'op': 'src', 'src': text, 'bad': bk})
            continue
        if host_phase and x < 0.25:
            ops.append({'op': 'src', 'src': ro.choice(PHASE_TEXTS)})
            continue
        if x < 0.075 and x >= 0.07:
            ops.append({'op': 'src', 'src': '\n'.join('w%d = %d' % (i, i) for i in range(60)) + '\nw59'})       # sixty statements
            continue
        if x < 0.13:
            # spellings the renderer never produces: backslashes in non-raw strings; "methods" that are not builtins,
            # applied to plain data as call / method / pipe (today: undefined function)
            recv = ro.choice(['S', 'L', 'D', '%msg%', 'N', '"abc"', '[1, 2]', '{"a": 1}', 'HL[0]'])
            meth = ro.choice(['encode', '__iter__', '__class__', 'format', '__getattribute__', 'copy', 'title', '__reduce__', '__dir__', 'append',
                              '__len__', 'count', 'index', 'as_tuple', 'conjugate', 'clear', 'fromkeys', 'popitem', '__init_subclass__', 'to_bytes'])
            arg = ro.choice(['', '"upper"', '1', 'S'])
            ops.append({'op': 'src', 'src': ro.choice([
                'V7 = %s.%s(%s)\nV7' % (recv, meth, arg), 'V7 = %s | %s\nV7' % (recv, meth), 'V7 = %s(%s)\nV7' % (meth, recv),
                'V8 = match("a1", "\\d+")\nV8', 'V8 = "C:\\dir" + "\\q"\nV8', 'replace("a\\qb", "\\q", "-")', "V8 = 'x\\y' + \"\\z\"\nV8"])})
            continue
        ops.append({'op': 'apply', 'pick': [ro.randrange(10 ** 6) for _ in range(3)], 'depth': ro.choice([1, 1, 2, 2, 3]),
                    'shape_seed': ro.randrange(2 ** 32), 'store': ro.choice(['name', 'name', 'item', 'none']), 'known': ro.random() < 0.5,
                    'style': gen.style(S['render']), 'entropy': ro.randrange(2 ** 32)})
        if ro.random() < 0.12:
            # budget fault: this call is cut short by the ops limit (the error path is evaluation under the same rules)
            ops[-1]['budget'] = ro.choice([1, 2, 3, 5, 8, 13])
    world = {'names': dict(exerciser.HOST_NAMES), 'fresh': rc.random() < 0.03}
    if rc.random() < 0.15:
        # the host binds one function of its own, re(i), that calls back into the same parser during an evaluation
        world['reentry'] = [{'api': 'eval', 'names': 'fresh', 'prog': ['bin', '+', ['num', '1'], ['num', '1']]},
                            {'api': 'eval', 'names': 'same', 'prog': ['block', [['assign', 'V6', ['list', [['num', '1']]]], ['name', 'V6']]]},
                            {'api': 'list_names', 'prog': ['call', 'ff', [['name', 'aa'], ['name', 'bb']], 'plain'], 'consume': 1},
                            {'api': 'parse', 'prog': ['bin', '+', ['name', 'aa'], ['num', '1']]}]
        for i in range(rc.randint(1, 3)):
            k = rc.randrange(4)
            ops.insert(rc.randrange(len(ops) + 1), {'op': 'src', 'src': rc.choice(['re(%d)' % k, 'V5 = [1, re(%d)]\nV5' % k, 'map([1, 2], v => re(%d))' % k])})
    if host_phase:
        # before this history the host used the same parser with a function bound in names (fetch returns a live
        # module object); it has since removed it: from here on only plain data (and lambdas programs defined) is bound
        world['host_phase'] = [PHASE_TEXTS[i] for i in (3, 0, 1, 2, 5)]
        world['cache'] = {'kind': 'dict'} if rc.random() < 0.6 else None
    elif rc.random() < 0.2:
        world['cache'] = {'kind': 'dict'}
    return {'world': world, 'ops': ops}


def _build(op, table_names, stored):
    r = RealRandom(op['shape_seed'])
    extra = list(stored)

    def one(nm, first=None):
        args = None
        if r.random() < 0.3:
            args = exerciser.sig_args(r, monitors.M.orig_functions.get(nm), extra, keyed=nm in exerciser.KEYED)
        if args is not None:
            pass
        elif op['known'] and nm in exerciser.KNOWN_SHAPES and r.random() < 0.7:
            args = exerciser.known_args(r, nm)
        else:
            args = exerciser.shapes(r, extra, table_names, no_functions=nm in exerciser.KEYED)
        if r.random() < 0.15:
            # indexing / slicing whatever is at hand, builtins included
            base = ['name', r.choice(table_names + extra + list(exerciser.HOST_NAMES))]
            bound = lambda: r.choice([['num', '0'], ['num', '2'], ['num', '1.5'], ['num', '0.5'], ['neg', ['num', '1']], ['bin', '/', ['num', '3'], ['num', '2']], ['none']])
            args = args + [['index', base, exerciser.atom(r, extra)] if r.random() < 0.5 else
                           ['slice', base, r.choice(['a:b', 'a:', ':b', '::s']), bound(), bound()]]
        if first is not None:
            args = [first] + args[1:] if args else [first]
        return ['call', nm, args, gen.sugar(r, len(args))]
    t = None
    used = []
    for d in range(op['depth']):
        nm = table_names[op['pick'][d] % len(table_names)]
        used.append(nm)
        t = one(nm, first=t)
    tgt = 'V%d' % (op['shape_seed'] % 6)
    if op['store'] == 'name':
        prog = ['block', [['assign', tgt, t], ['name', tgt]]]
    elif op['store'] == 'item':
        prog = ['block', [['setitem', ['name', 'HL'], ['num', '0'], t], ['index', ['name', 'HL'], ['num', '0']]]]
    else:
        prog = ['block', [t]]
    return prog, used, tgt


# stdlib modules a harness has long imported but a production process may not have: taken out of sys.modules for the
# duration of a run, so that a lazy `import x` inside the library DURING an evaluation is real import activity again
LAZY_MODULES = ('json', 'json.decoder', 'json.encoder', 'json.scanner', 'pprint', 'textwrap', 'difflib', 'statistics', 'fractions', 'csv',
                'shlex', 'html', 'string', 'pickle', 'base64', 'uuid', 'datetime', 'calendar', 'numbers', 'bisect', 'heapq', 'unicodedata', 'logging',
                'traceback', 'linecache', 'tokenize', 'inspect', 'dis', 'ast', 'reprlib', 'locale', 'gettext', 'struct', 'binascii', 'hashlib', 'math', 'cmath')


def execute(case, ctx):
    import sys as _sys
    # modules the package itself imported at load time stay (they are part of its import, not of an evaluation)
    own = set()
    for nm, mod in list(_sys.modules.items()):
        if mod is not None and (nm == 'smartquery' or nm.startswith('smartquery.')):
            for v in vars(mod).values():
                if type(v).__name__ == 'module':
                    own.add(v.__name__)
    evicted = {m: _sys.modules.pop(m) for m in LAZY_MODULES if m in _sys.modules and m not in own and m.split('.')[0] not in own}
    try:
        return _execute(case, ctx)
    finally:
        for m in LAZY_MODULES:
            if m in evicted:
                _sys.modules[m] = evicted[m]
            elif m in _sys.modules and m not in own:
                pass


def _execute(case, ctx):
    from smartquery.sq_parser import SqParser
    names = {k: lang.dec_value(v) for k, v in case['world']['names'].items()}
    from ..seams import make_cache
    cache = make_cache(case['world'].get('cache'))
    parser = SqParser(parse_cache=cache) if case['world'].get('fresh') else boot.fresh_parser(cache)
    if case['world'].get('host_phase'):
        import sys as _sys
        n0 = dict(names)
        n0['fetch'] = lambda *a: _sys
        for text in case['world']['host_phase']:
            real_eval(parser, text, n0, budget=2000)
        # the host takes its function and everything non-plain away again; lambdas the programs defined stay
        for k, v in n0.items():
            if k != 'fetch' and canon.type_walk(v, hooks.make_allowed_callable(None)) is None:
                names[k] = v
        ctx.fault('host_function_removed')
        ctx.probe('host_phase_then_plain')
    if case['world'].get('fresh'):
        ctx.probe('fresh_construction_eval')
    if case['world'].get('reentry'):
        from ..world import Host
        host = Host()
        host.reentry = list(case['world']['reentry'])
        host.parser = parser
        names['re'] = host.fns(['re'])['re']
        ctx.fault('reentrant_host_function_bound')
        ctx.probe('reentry_under_audit')
    table = monitors.M.functions.FUNCTIONS
    table_names = sorted(table)
    allowed = hooks.make_allowed_callable(None)
    vhook = hooks.make_c02_value_hook(allowed)
    stored = []
    applied = set()
    for step, op in enumerate(case['ops']):
        ctx.step = step
        if op['op'] == 'src':
            prog, used, tgt = ['src'], ['src'], 'V9'
            src = op['src']
            if op.get('bad'):
                ctx.fault('bad_source')
                ctx.probe('parse_failure_then_use')
        else:
            prog, used, tgt = _build(op, table_names, stored)
            src = lang.render(prog, op.get('style', 0))
        ENTROPY.script(op.get('entropy', 0))
        rec = monitors.Rec()
        rec.value_hooks = (vhook,)
        AUDIT.violations = []
        rout = real_eval(parser, src, names, budget=op.get('budget', 20000), rec=rec, audit=True)
        ctx.probe('audit_armed_evals')
        if op.get('budget') and type(rout.exc).__name__ == 'OpsExecutionLimitExceededError':
            ctx.fault('budget_abort')
            ctx.probe('ops_limit_hit_under_audit')
        ctx.event(step, used, rout.kind, canon.digest(rout.brief()))
        ctx.op_kind(used[0])
        ctx.state(canon.cdigest(names, monitors.M.fn_names))
        what = 'step %d %r' % (step, src[:220])
        if rout.kind == 'base':
            ctx.report('non_exception_escaped', '%s: %r' % (what, rout.exc), {'kind': 'non_exception_escaped'})
        for ev, args in AUDIT.violations:
            ctx.report('io_during_eval', '%s: audit event %s%s raised while eval was running' % (what, ev, args),
                       {'kind': 'io_during_eval', 'event': ev.split('.')[0]})
        for f in rec.findings:
            if f[0] == 'non_plain_value':
                ctx.report('non_plain_value', '%s: node %s returned a value containing a %s at %s' % (what, f[1], f[3], f[2]),
                           {'kind': 'non_plain_value', 'type': f[3]})
        if rout.kind == 'value':
            bad = canon.type_walk(rout.value, allowed)
            if bad:
                ctx.report('non_plain_value', '%s: the result contains a %s at %s' % (what, bad[1], bad[0]), {'kind': 'non_plain_value', 'type': bad[1]})
        bad = canon.type_walk(names, allowed)
        if bad:
            ctx.report('non_plain_value', '%s: names contains a %s at %s' % (what, bad[1], bad[0]), {'kind': 'non_plain_value', 'type': bad[1]})
        for nm in used:
            applied.add(nm)
            ctx.stats['applied:' + nm] += 1
        if any(s_ in src for s_ in stored):
            ctx.probe('stored_result_reused')
            ctx.nontrivial = True
        if op.get('store') == 'name' and tgt in names and tgt not in stored:
            stored.append(tgt)
        if any(a in src for a in exerciser.ATTR_STRINGS[:4]):
            ctx.probe('attr_like_string')
        flat = str(prog)
        if any("['name', '%s']" % n in flat for n in table_names):
            ctx.probe('builtin_as_argument')
        if any("['index', ['name', '%s']" % n in flat or "['slice', ['name', '%s']" % n in flat for n in table_names):
            ctx.probe('index_on_builtin')
    for ev, n in AUDIT.other.items():
        ctx.stats['audit_other:' + ev] += n
    AUDIT.other.clear()


def post_batch(agg):
    applied = sorted(k[8:] for k in agg['stats'] if k.startswith('applied:'))
    table = sorted(monitors.M.functions.FUNCTIONS)
    never = [n for n in table if n not in applied]
    if not never:
        agg['stats']['probe:every_table_entry_applied'] += 1
    return {'table_entries': len(table), 'never_applied': never,
            'audit_events_not_judged': {k[12:]: v for k, v in agg['stats'].items() if k.startswith('audit_other:')}}


def sample(case):
    return case['ops'][:3]
