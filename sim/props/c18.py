"""C18 - list_names reports every name an evaluation can ask the host for (DESIGN.md section 5, C18).

Simulated: two consumers of one token stream - the dependency lister and the evaluator - related through a
recording names mapping handed to eval, after arbitrary earlier calls on the same long-lived parser (stale lexer
position, abandoned generators, failed parses: the history is the fault). Names are known by construction.
"""
import copy

from .. import boot, canon, gen, lang, history, badsrc
from ..proggen import ProgGen
from ..rng import Streams, weighted
from ..world import classify

ID = 'C18'
LEVEL = 'exploration'
TIERS = {'quick': 12000, 'thorough': 500000}
RULE = ('seeded histories of 4-20 calls on one SqParser: list_names on (a) token soups built by construction from '
        'plain names (ASCII, Unicode, keyword-prefixed/suffixed), %...% names (spaces, dots, operators, keywords, quotes), '
        'keywords, numbers, strings / raw strings / comments containing identifier-like text, operators and brackets '
        'with and without separating blanks; (b) rendered programs with identifiers in every syntactic role; (c) texts '
        'with an illegal character after k names; consumed fully or abandoned after j items; interleaved with failing '
        'parses and with evals under a recording names mapping. Oracle: yielded names == constructed names in source '
        'order; on a lexical error ParserError after at most a prefix; every key an eval asks the host mapping for is in '
        'list_names(source) or an implicit sugar name. non-trivial = a fault (abandoned generator, failed parse or '
        'lexical error) preceded a judged call; distinct by sha256 of the case')
ASSUMPTIONS = ['lazy or eager lexing both satisfy the failure side (the statement does not choose)',
               'programs for the lookup check contain no ast_names and no lambdas created from other sources']
REAL = ['smartquery.lexer', 'smartquery.ply.lex', 'smartquery.sq_parser', 'evaluator']
STUB = ['host names mapping (recording dict subclass)']
REACH_PROBES = ('percent_name', 'unicode_name', 'keyword_like_name', 'name_adjacent_to_string', 'comment_with_names',
                'lexical_error_after_names', 'abandoned_generator', 'after_failed_parse', 'lookup_subset_checked',
                'name_adjacent_to_number', 'fault_then_judged', 'same_text_again', 'unclosed_percent', 'deferred_result_consumed_later', 'inner_blank_names', 'older_listing_closed_midway', 'long_text')
IMPLICIT = {'list', 'dict', '__getitem__', '__setitem__', '__delitem__', '__setitem_with_op__'}

PLAIN = ['\u2126', '\u212bx', '\ufb01x', 'a', 'b2', '_x', 'x_1', 'if_', 'True_', 'not_in', 'in1', 'orx', 'andy', 'nota', 'delta', 'elsewhere', 'forx', 'r', 'rr',
         'Ünï', 'имя', '变量', 'é', 'None_', 'defx', 'e1', 'len', 'map', 'f']
PERCENT = ['%a\x85b%', '%c\u2028d%', '%e\u0301t\u00e9%', '%unit price%', '%unit  price%', '%my var%', '%a.b%', '%x+y%', '%if%', '%"q"%', "%it's%", '% %', '%1%', '%a b.c-d%', '%#no comment%', '%for x%', '%%']
KEYWORDS = ['and', 'or', 'in', 'not', 'if', 'else', 'True', 'False', 'None', 'del', 'for', 'while', 'break', 'continue', 'def', 'raise', 'elif']
STRINGS = ['"a\u2028b c"', "'p\x0cq r'", 'r"u\x85v w"', '"x\x1cy z"', '"\u2029n m"', '"""x"""', '"abc"', "'x y'", '"a + b"', 'r"raw\\d"', "r'%v%'", '"%pct%"', '"it\'s"', '"#nocomment"', '""', '"if x"']
NUMBERS = ['1', '42', '3.14', '007', '10.0']
PUNCT = ['+', '-', '*', '/', '**', '==', '!=', '<', '<=', '>', '>=', '=', '+=', '=>', '(', ')', '[', ']', '{', '}', ',', '.', '|', ':', ';']
ILLEGAL = ['$', '?', '~', '`', '@', '^', '&', '\\', '!', '"unterminated', "'open", '\x00', '☃', '"""abc', "'''x", '""" a b', '"a\\" + secret', '"hello \\"world', "'it\\'s + name"]


def _soup(r, probes):
    """Token soup: returns (text, expected names in order)."""
    toks = []
    n = r.randint(1, 14)
    for _ in range(n):
        k = weighted(r, [('plain', 5), ('percent', 2.5), ('kw', 2), ('str', 2), ('num', 1.5), ('punct', 4), ('comment', 0.7), ('nl', 0.8)])
        if k == 'plain':
            toks.append(('name', r.choice(PLAIN)))
        elif k == 'percent':
            toks.append(('name', r.choice(PERCENT)))
        elif k == 'kw':
            toks.append(('kw', r.choice(KEYWORDS)))
        elif k == 'str':
            toks.append(('str', r.choice(STRINGS)))
        elif k == 'num':
            toks.append(('num', r.choice(NUMBERS)))
        elif k == 'punct':
            toks.append(('punct', r.choice(PUNCT)))
        elif k == 'comment':
            toks.append(('comment', '# ' + r.choice(['note a b', 'x = %y%', 'if', '"s" name', 'page\x0cbreak here', 'sep\u2028arator two', 'nel\x85three'])))
        else:
            toks.append(('nl', r.choice(['\n', '\r\n'])))
    out = []
    expected = []
    prev = None
    for kind, text in toks:
        sep = ''
        need = False
        if prev is not None:
            pk, pt = prev
            wordy_prev = pk in ('name', 'kw', 'num') and not pt.endswith('%')
            wordy_next = kind in ('name', 'kw', 'num') and not text.startswith('%')
            if wordy_prev and wordy_next:
                if pk == 'num' and kind in ('name', 'kw') and r.random() < 0.3:
                    probes.add('name_adjacent_to_number')      # "1a" lexes as NUMBER NAME
                    # but a keyword glued to a number is still that keyword; a name stays a name
                else:
                    need = True
            if pk in ('name', 'kw') and kind == 'str' and not pt.endswith('%'):
                need = True                 # r"..." / name"..." would change the token
            if pk == 'num' and kind == 'num':
                need = True
            if pk == 'num' and kind == 'punct' and text == '.':
                need = True                 # "1." then digits would be a decimal literal
            if pk == 'punct' and kind == 'num' and pt == '.':
                need = True
            if pk == 'punct' and kind == 'punct':
                need = True                 # "=" "=" would fuse
            if pk == 'punct' and kind == 'name' and text.startswith('%') and False:
                need = True
            if pk == 'name' and kind == 'name' and (pt.endswith('%') and text.startswith('%')):
                need = True                 # "%a%%b%" is fine in principle; keep them apart for readability
            if pk == 'comment':
                need = True
                sep = '\n'
            if kind == 'str' and pk == 'str':
                need = True
        if need and not sep:
            sep = r.choice([' ', '  ', '\t'])
        elif not sep and r.random() < 0.5:
            sep = r.choice([' ', ' ', '\t'])
        if kind == 'str' and prev is not None and prev[0] in ('name',) and sep == '':
            sep = ' '
        if kind == 'name' and prev is not None and prev[0] == 'str' and sep == '':
            probes.add('name_adjacent_to_string')
        out.append(sep + text)
        if kind == 'name':
            expected.append(text)
            if text.startswith('%'):
                probes.add('percent_name')
            elif not text.isascii():
                probes.add('unicode_name')
            elif any(text.startswith(k) or text.endswith(k) for k in ('if', 'in', 'or', 'and', 'not', 'True', 'None', 'def', 'for', 'else', 'del')):
                probes.add('keyword_like_name')
        if kind == 'comment':
            probes.add('comment_with_names')
        prev = (kind, text)
    return ''.join(out), expected


def _program(r, probes):
    names = r.sample(PLAIN[:19] + PERCENT[:11], 5)
    env = {names[0]: 'num', names[1]: 'list', names[2]: 'str', names[3]: 'dict', names[4]: 'num'}
    g = ProgGen(r, env, max_depth=r.choice([1, 2, 3]), illtyped=0.03)
    prog = g.program(n_stmts=r.choice([1, 2, 3]))
    x = r.random()
    if x < 0.1:
        # a STRING where a function is expected: it is data, never a name to look up
        prog[1].append(['call', r.choice(['map', 'filter', 'sorted', 'reduce']), [['name', names[1]], ['str', r.choice(['shout', 'helper', 'len', names[0]])]], 'plain'])
    elif x < 0.2:
        # two spellings that differ only by blanks INSIDE a %...% name are two different names
        a, b = '%unit price%', '%unit  price%'
        env[a] = 'num'
        env[b] = 'num'
        which = r.choice([a, b])
        prog = ['block', [['bin', '*', ['name', which], ['num', '2']]]]
        probes.add('inner_blank_names')
    for n in lang.names_in(prog):
        if n.startswith('%'):
            probes.add('percent_name')
    return prog, env


def generate(seed, tier):
    S = Streams(seed)
    rc, ro, rf = S['config'], S['ops'], S['faults']
    ops = []
    cache = {'kind': 'dict'} if rc.random() < 0.4 else None
    for _ in range(rc.randint(4, 20)):
        probes = set()
        k = weighted(ro, [('soup', 5), ('prog_names', 3), ('eval_lookup', 3), ('lexerr', 2), ('bad_parse', 1.5), ('again', 2.5)])
        prior = [o for o in ops if o['op'] == 'list_names']
        if k == 'again' and prior:
            # the identical text once more (whatever an earlier, possibly abandoned or failed, call left behind)
            op = {kk: vv for kk, vv in ro.choice(prior).items() if kk not in ('consume', 'keep_suspended')}
            op['again'] = True
            ops.append(op)
            continue
        if k == 'again':
            k = 'soup'
        if k == 'soup':
            text, exp = _soup(ro, probes)
            if ro.random() < 0.06:
                # a text of well over a thousand characters / several hundred tokens (the lister reads long texts like short ones)
                while len(text) < 1150:
                    t2, e2 = _soup(ro, probes)
                    text, exp = text + '\n' + t2, exp + e2
                probes.add('long_text')
            op = {'op': 'list_names', 'src': text, 'expect': exp}
        elif k == 'prog_names':
            prog, env = _program(ro, probes)
            text = lang.render(prog, gen.style(S['render']))
            op = {'op': 'list_names', 'src': text, 'expect': lang.names_in(prog)}
        elif k == 'eval_lookup':
            prog, env = _program(ro, probes)
            text = lang.render(prog, gen.style(S['render']))
            op = {'op': 'eval_lookup', 'src': text, 'env': env}
        elif k == 'lexerr':
            text, exp = _soup(ro, probes)
            text2, exp2 = _soup(ro, probes)
            bad = ro.choice(ILLEGAL)
            if '#' in text:
                text += '\n'          # a comment runs to the end of its line: the illegal character goes on the next one
            if ro.random() < 0.15:
                # a % that is not closed on its own line is an illegal character, whatever follows on later lines
                tail = ro.choice(['', ' 4', ' x']) + ro.choice(['\n', '\r\n']) + text2 + ro.choice(['', ' % 2', '\n%'])
                op = {'op': 'list_names', 'src': text + ' %' + tail, 'expect': exp, 'lexerr': True}
                probes.add('unclosed_percent')
            else:
                op = {'op': 'list_names', 'src': text + ' ' + bad + ' ' + (text2 if not bad.startswith(('"', "'")) else ''), 'expect': exp, 'lexerr': True}
        else:
            prog, env = _program(ro, probes)
            _, text = badsrc.make_bad(rf, lang.render(prog, 0))
            op = {'op': 'parse', 'src': text}
        if op['op'] == 'list_names' and not op.get('lexerr') and rf.random() < 0.12:
            op['defer'] = True          # the result is created now, held across the next call(s), and consumed later
        elif op['op'] == 'list_names' and rf.random() < 0.3:
            op['consume'] = rf.randint(0, 3)
            op['keep_suspended'] = rf.random() < 0.5
        op['probes'] = sorted(probes)
        ops.append(op)
    return {'ops': ops, 'world': {'cache': cache}}


class RecNames(dict):
    def __init__(self, *a, **k):
        super().__init__(*a, **k)
        self.asked = []

    def __contains__(self, k):
        self.asked.append(k)
        return dict.__contains__(self, k)

    def __getitem__(self, k):
        self.asked.append(k)
        return dict.__getitem__(self, k)

    def get(self, k, d=None):
        self.asked.append(k)
        return dict.get(self, k, d)


VALUES = {'num': 3, 'list': [1, 2, 3], 'str': 'abc', 'dict': {'a': 1}}


def execute(case, ctx):
    from smartquery.exceptions import ParserError
    from ..seams import make_cache
    parser = boot.fresh_parser(make_cache((case.get('world') or {}).get('cache')))
    suspended = []
    deferred = []
    fault_before = False
    for step, op in enumerate(case['ops']):
        ctx.step = step
        if deferred and (step - deferred[0][0] >= 2 or step == len(case['ops']) - 1):
            # consume the oldest held (never started) result now: it must still be the names of ITS text
            dstep, dit, dsrc, dexp = deferred.pop(0)
            try:
                got = list(dit)
                exc = None
            except Exception as e:
                got, exc = None, e
            ctx.probe('deferred_result_consumed_later')
            if exc is not None or got != dexp:
                ctx.report('wrong_names', 'list_names(%r) was called at step %d, its result consumed after %d other call(s): it yielded %s, the identifiers of '
                           'that text are %s' % (dsrc[:160], dstep, step - dstep, got if exc is None else repr(exc), dexp), {'kind': 'wrong_names'})
        ctx.op_kind(op['op'] + (':lexerr' if op.get('lexerr') else '') + (':abandon' if op.get('consume') is not None else ''))
        src = op['src']
        for p in op.get('probes', ()):
            ctx.probe(p)
        if op.get('again'):
            ctx.probe('same_text_again')
        if op['op'] == 'parse':
            try:
                parser.parse(src)
            except Exception:
                ctx.fault('bad_source')
                ctx.probe('after_failed_parse')
                fault_before = True
            continue
        if op['op'] == 'eval_lookup':
            try:
                listed = set(parser.list_names(src))
            except Exception as e:
                ctx.report('list_names_failed_on_valid_program', 'step %d list_names(%r) raised %r' % (step, src[:200], e),
                           {'kind': 'list_names_failed_on_valid_program'})
                continue
            names = RecNames({k: copy.deepcopy(VALUES[t]) for k, t in op['env'].items()})
            try:
                parser.eval(src, names, max_ops_evaluated=5000)
            except Exception:
                pass
            ctx.probe('lookup_subset_checked')
            extra = [k for k in names.asked if k not in listed and k not in IMPLICIT]
            if extra:
                ctx.report('lookup_not_listed', 'step %d eval(%r) asked the host names mapping for %s which list_names(source) = %s does not report' % (
                    step, src[:200], sorted(set(map(str, extra)))[:5], sorted(listed)[:12]), {'kind': 'lookup_not_listed'})
            if fault_before:
                ctx.nontrivial = True
                ctx.probe('fault_then_judged')
            ctx.event(step, 'eval_lookup', len(names.asked))
            continue
        # list_names
        if op.get('defer'):
            try:
                deferred.append((step, parser.list_names(src), src, op['expect']))
            except Exception as e:
                ctx.report('list_names_raised', 'step %d list_names(%r) raised %r on a lexically valid text' % (step, src[:160], e), {'kind': 'list_names_raised'})
            continue
        got = []
        exc = None
        n = op.get('consume')
        try:
            it = iter(parser.list_names(src))
            if n is None:
                for x in it:
                    got.append(x)
                    if len(got) == 1 and suspended and (step + len(src)) % 3 == 0:
                        # while this listing is being read the host finally drops an older, abandoned one
                        suspended.pop(0).close()
                        ctx.fault('older_listing_closed_midway')
                        ctx.probe('older_listing_closed_midway')
            else:
                for _ in range(n):
                    try:
                        got.append(next(it))
                    except StopIteration:
                        break
                if op.get('keep_suspended'):
                    suspended.append(it)
                elif hasattr(it, 'close'):
                    it.close()
        except BaseException as e:
            if type(e).__name__ in ('RunTimeout', 'RunTooBig'):
                raise
            exc = e
        exp = op['expect']
        ctx.event(step, 'list_names', got, type(exc).__name__ if exc else None)
        lx = getattr(parser, 'lex', None)
        ctx.state(canon.digest([getattr(lx, 'lexpos', 0), getattr(lx, 'paren_count', 0), len(got), bool(exc)]))
        what = 'step %d list_names(%r)%s' % (step, src[:200], ' consume=%s' % n if n is not None else '')
        if exc is not None and not isinstance(exc, Exception):
            ctx.report('non_exception_escaped', '%s: %r' % (what, exc), {'kind': 'non_exception_escaped'})
        if op.get('lexerr'):
            if n is None:
                ctx.fault('bad_source')
                ctx.probe('lexical_error_after_names')
                if exc is None:
                    ctx.report('lexical_error_not_reported', '%s returned %s without raising although the text contains an illegal character' % (what, got),
                               {'kind': 'lexical_error_not_reported'})
                elif not isinstance(exc, ParserError):
                    ctx.report('wrong_error_class', '%s raised %r, not ParserError' % (what, exc), {'kind': 'wrong_error_class'})
                if got != exp[:len(got)]:
                    ctx.report('wrong_names', '%s yielded %s before failing; names preceding the illegal character are %s' % (what, got, exp),
                               {'kind': 'wrong_names'})
                fault_before = True
            else:
                if exc is None or isinstance(exc, ParserError):
                    if got != exp[:len(got)] and exc is None:
                        ctx.report('wrong_names', '%s yielded %s; expected a prefix of %s' % (what, got, exp), {'kind': 'wrong_names'})
                fault_before = True
                ctx.fault('gen_abandon')
            continue
        if exc is not None:
            ctx.report('list_names_raised', '%s raised %r on a lexically valid text' % (what, exc), {'kind': 'list_names_raised'})
        want = exp if n is None else exp[:n]
        if got != want:
            ctx.report('wrong_names', '%s yielded %s, the identifiers in source order are %s' % (what, got, want), {'kind': 'wrong_names'})
        if n is not None:
            ctx.fault('gen_abandon')
            ctx.probe('abandoned_generator')
            fault_before = True
        elif fault_before:
            ctx.nontrivial = True
            ctx.probe('fault_then_judged')


def sample(case):
    return [{k: v for k, v in o.items() if k not in ('probes', 'env')} for o in case['ops'][:8]]
