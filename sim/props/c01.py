"""C01 - the op budget is enforced exactly, on every evaluation path (DESIGN.md section 5, C01).

Simulated: the budget is a deterministic crash injector - "kill this evaluation at its N-th operation". The host
is a second party through which evaluation continues (call / attempt / map / filter / reduce / sorted driving
lambdas), and the names mapping persists across evals, so a lambda defined by one eval is invoked by a later one.
Fault enumeration: for the last eval of every generated history EVERY budget N in 1..K+2 is run from an identical
pre-state (the history prefix is re-executed from scratch for each N) and compared with the unbounded twin run.
"""
from .. import canon, gen, lang, history, monitors
from ..proggen import ProgGen, type_of
from ..rng import Streams
from ..seams import SimKill
from ..world import real_eval, RecDict

ID = 'C01'
NEEDS_BUILTIN_WRAPPERS = True      # reads what the builtin monitor records (hooks / effect log)
LEVEL = 'fault_enumeration'
TIERS = {'quick': 1600, 'thorough': 60000}
WALL_CAP = 120
TWIN_BUDGET = 9000      # 'unbounded' for the generated programs; runaway recursion is skipped, not judged
RULE = ('seeded histories of 1-3 evals over one shared names mapping (prefix evals define lambdas and data; host '
        'functions t/call/attempt bound); for the last eval the unbounded twin gives K (node evaluations counted by '
        'the monitor, not read from the VM), outcome and the effect log (probe calls, names writes, container '
        'mutators, each stamped with the number of nodes started); then every budget N in 1..K+2 (40 sampled budgets '
        'incl. 1, K-1, K, K+1 when K > 300) is run from an identical pre-state: N > K => identical outcome, effects, '
        'names and ops_evaluated == K; N <= K => ops-limit ParserError, exactly N node starts, effect log == the '
        'prefix of the twin\'s log before the N-th node start, names == names of an independent monitor-kill at node N; '
        'every node evaluation charged to the running call\'s VM state; default budget == 100. evaluations = budget '
        'runs. non-trivial = a program with K >= 8 whose sweep crossed a lambda body or higher-order builtin; '
        'distinct by sha256 of the case')
ASSUMPTIONS = ['with a swallowing host callback (attempt) only "no node passes the gate after it fired" and outcome class are demanded',
               'the effect log sees host probe calls, writes to the names mapping and the mutating builtins; other in-place effects (x += list) surface through the names write that follows them']
REAL = ['smartquery.*']
STUB = ['host callbacks t / call / attempt (in 30% of the worlds call / attempt run the callback on a fresh thread and join it)']
REACH_PROBES = ('ast_names_expression', 'ops_lower_bound_checked', 'nested_eval_reentry', 'abort_inside_lambda', 'abort_inside_hof', 'abort_after_effect', 'cross_eval_lambda_called',
                'swallowing_host', 'thread_hop_callback', 'default_budget_checked', 'kill_twin_compared', 'full_sweep')


def _world(r):
    names = {}
    for nm in r.sample(['a', 'b', 'c', 'x', 'y', 'z'], r.randint(1, 4)):
        names[nm] = gen.host_value_spec(r, 2, floats=False)
    names['L'] = [1, 2, 3]
    return {'names': names, 'host_fns': ['t', 'call', 'attempt', 're'], 'thread_hop': r.random() < 0.3}


def generate(seed, tier):
    S = Streams(seed)
    rc, ro = S['config'], S['ops']
    world = _world(rc)
    model = history.model_only(world)
    ops = []
    n = rc.choice([1, 2, 2, 3])
    cross = False
    for j in range(n):
        env = {k: type_of(v) for k, v in model.host.items() if not getattr(v, '_sim_kind', '').startswith('host:')}
        arity = {k: len(v.params) for k, v in model.host.items() if getattr(v, '_sim_kind', '') == 'lambda'}
        last = j == n - 1
        g = ProgGen(ro, env, max_depth=ro.choice([2, 3, 3]), allow_host=['t', 'call', 'attempt'], fn_arity=arity,
                    probes=ro.random() < 0.6, illtyped=0.02)
        if not last:
            stmts = [g.stmt() for _ in range(ro.randint(1, 3))]
            if ro.random() < 0.8:
                stmts.append(g.stmt_deffn())
                if ro.random() < 0.25:
                    # the earlier call FAILS after it has stored its lambda (a dead call is a dead call, however it ended)
                    stmts.append(ro.choice([['name', 'undefined_zz'], ['bin', '/', ['num', '1'], ['num', '0']], ['call', 'push', [['num', '1'], ['num', '2']], 'plain']]))
            prog = ['block', stmts]
        else:
            prog = g.program(n_stmts=ro.randint(1, 6))
            if ro.random() < 0.07:
                # the smallest programs there are: one bare name or literal (2 operations: the program node and the leaf)
                leaf = ro.choice([['name', ro.choice(sorted(env) or ['L'])], ['num', '7'], ['str', 'a'], ['bool', True], ['none'], ['name', 'L']])
                prog = ['block', [leaf]]
            if arity and ro.random() < 0.7:
                cross = True
                # make sure lambdas defined by earlier evals are invoked by this one
                f = ro.choice(sorted(arity))
                args = [['num', str(ro.randint(0, 3))] for _ in range(arity[f])]
                drv = ro.choice(['direct', 'call', 'map', 'attempt'])
                if drv == 'direct':
                    st = ['call', f, args, 'plain']
                elif drv == 'map' and arity[f] == 1:
                    st = ['call', 'map', [['name', 'L'], ['name', f]], 'plain']
                else:
                    st = ['call', 'attempt' if drv == 'attempt' else 'call', [['name', f]] + args, 'plain']
                at = ro.randrange(len(prog[1]) + 1)
                prog[1].insert(at, ['assign', 'r', st])
                if ro.random() < 0.06:
                    # a text of 1100 characters (few distinct ones) driven through a lambda character by character
                    world['names']['s1k'] = {'srep': ['ab1 ', 275]}
                    prog[1].insert(ro.randrange(len(prog[1]) + 1), ['assign', 'r', ['call', 'len', [['call', 'map', [['name', 's1k'], ['lambda', ['c'], ['name', 'c']]], 'plain']], 'plain']])
                one = sorted(k for k, v in arity.items() if v == 1)
                if one and ro.random() < 0.15:
                    # the host also binds a mapping object whose items are COMPUTED by a stored lambda (HM[k] calls it): reading
                    # it through a builtin drives that lambda's body like any host callback does
                    world['lammap'] = ro.choice(one)
                    prog[1].insert(ro.randrange(len(prog[1]) + 1), ['assign', 'r', ['call', ro.choice(['get', 'get', '__getitem__']),
                                                                                   [['name', 'HM'], ['num', str(ro.randint(0, 3))]] + ([['num', '0']] if ro.random() < 0.7 else []), 'plain']])
                if ro.random() < 0.35:
                    # a host callback re-enters the parser (nested eval) before the stored lambda is invoked
                    prog[1].insert(ro.randrange(at + 1), ['call', 're', [['num', str(ro.choice([0, 1, 1, 2, 2]))]], 'plain'])
        op = {'op': 'eval', 'prog': prog, 'style': gen.style(S['render']), 'kinds': sorted(g.kinds)}
        if last and arity and ro.random() < 0.25:
            # the host also passes ast_names whose (parsed) expressions are evaluated by this call before the program:
            # their operations - and the bodies of stored lambdas they call - belong to this call's budget too
            f = ro.choice(sorted(arity))
            op['ast_names'] = {'an': ['call', f, [['num', str(ro.randint(0, 3))] for _ in range(arity[f])], 'plain']}
        ops.append(op)
        model.run(prog)
    return {'world': world, 'ops': ops, 'cross': cross}


def _pre_state(case):
    """Fresh world with the history prefix executed unbounded. Returns (parser, names)."""
    W = history.World(case['world'], with_model=False)
    names = RecDict(W.names)

    def reenter(*a):
        # nested evaluation on the same parser from inside a host callback: a call of its own (own VM state, own
        # budget); variants: 0 succeeds, 1 fails at run time inside a lambda, 2 runs out of its own budget - the host
        # swallows the failure and the outer evaluation goes on
        k = int(a[0]) if a else 0
        with monitors.suspended():
            try:
                if k == 1:
                    return W.parser.eval('[1, 2] | map(v => v + undefined_inner)', {}, max_ops_evaluated=50)
                if k == 2:
                    return W.parser.eval('[1, 2, 3, 4] | map(v => v + 1)', {}, max_ops_evaluated=6)
                return W.parser.eval('[1, 2] | map(v => v + 1)', {}, max_ops_evaluated=50)
            except Exception:
                return 'inner-failed'
    W.host.on_reenter = reenter
    if case['world'].get('lammap'):
        import collections.abc
        fname = case['world']['lammap']

        class LamMap(collections.abc.Mapping):
            def __getitem__(self, k):
                f = names.get(fname)
                if not callable(f):
                    raise KeyError(k)
                return f(k)

            def __iter__(self):
                return iter(())

            def __len__(self):
                return 0
        names['HM'] = LamMap()
    for op in case['ops'][:-1]:
        real_eval(W.parser, lang.render(op['prog'], op.get('style', 0)), names, budget=10 ** 9)
    return W, names


def _sig(rout):
    if rout.kind == 'value':
        return ['value', canon.canon(rout.value, monitors.M.fn_names)]
    return ['exc', type(rout.exc).__name__, canon.norm_msg(str(rout.exc))[:300]]


def _run(case, src, budget=None, default=False, kill_at=None):
    W, names = _pre_state(case)
    rec = monitors.Rec()
    rec.log_effects = True
    rec.kill_at = kill_at
    ast = None
    if case['ops'][-1].get('ast_names'):
        from .. import boot
        ast = {k: boot.fresh_parser().parse(lang.render(t, 0)) for k, t in case['ops'][-1]['ast_names'].items()}
    try:
        rout = real_eval(W.parser, src, names, budget=budget if budget is not None else 10 ** 9, rec=rec,
                         default_budget=default, ast_names=ast)
    except SimKill:
        rout = None
    return rout, rec, names, W


def _has_attempt(t):
    if isinstance(t, list):
        if len(t) > 1 and t[0] == 'call' and t[1] == 'attempt':
            return True
        return any(_has_attempt(x) for x in t)
    return False


def execute(case, ctx):
    from smartquery.exceptions import ParserError
    op = case['ops'][-1]
    src = lang.render(op['prog'], op.get('style', 0))
    swallow = any(_has_attempt(o['prog']) for o in case['ops'])
    twin, trec, tnames, W0 = _run(case, src, budget=TWIN_BUDGET)
    K = trec.nodes
    if isinstance(twin.exc, RecursionError) or type(twin.exc).__name__ == 'OpsExecutionLimitExceededError' \
            or K >= TWIN_BUDGET or trec.gate_hit or trec.recursion_seen:
        # runaway recursion: the 'unbounded' twin does not terminate within the harness cap - not a judged case
        ctx.stats['skipped_runaway_program'] += 1
        return
    tsig = _sig(twin)
    tnames_c = canon.canon(tnames, monitors.M.fn_names)
    E = list(trec.effects)
    ctx.stats['K_total'] += K
    ctx.event('twin', K, canon.digest(tsig), len(E))
    ctx.state(canon.digest([K, tsig[0], len(E), sorted(trec.kinds)]))
    ctx.op_kind('K%d' % min(K // 10, 30))
    if twin.kind == 'base':
        ctx.report('non_exception_escaped', '%r: %r' % (src[:200], twin.exc), {'kind': 'non_exception_escaped'})
    what = '%r (K=%d)' % (src[:240], K)

    def attribution(rec, N):
        if rec.foreign:
            ctx.report('foreign_state_charge',
                       '%s budget=%s: %d node evaluations (%s) were charged to a VM state other than the running eval call\'s '
                       '(a lambda created by an earlier eval call runs under the dead state of that call: the current '
                       'budget does not bound it)' % (what, N, rec.foreign, dict(rec.foreign_kinds)),
                       {'kind': 'foreign_state_charge'})
            return False
        return True

    clean = attribution(trec, 'unbounded')
    if case.get('cross') and any(e[1] == 'names[r]=' for e in E):
        ctx.probe('cross_eval_lambda_called')     # a lambda defined by an earlier eval ran to completion in this one
    if swallow:
        ctx.probe('swallowing_host')
    if W0.host.hops:
        ctx.fault('host_callback_on_fresh_thread', W0.host.hops)
        ctx.probe('thread_hop_callback')
    if W0.host.reentries:
        ctx.fault('reentry', W0.host.reentries)
        ctx.probe('nested_eval_reentry')
    # (a)/(d) charged == performed on the unbounded run
    charged = getattr(trec.state0, 'ops_evaluated', None)
    if clean and twin.kind == 'value' and isinstance(charged, int) and charged != K:
        ctx.report('charged_ne_performed', '%s: %d charged, %d node evaluations performed (%s)' % (what, charged, K, dict(trec.kinds)),
                   {'kind': 'charged_ne_performed'})
    # every syntax-tree node the reference semantics evaluate is an operation (lower bound on K)
    m = history.model_only(case['world'])
    in_domain = True
    for o in case['ops'][:-1]:
        if m.run(o['prog'])[0] == 'unspec':
            in_domain = False       # the model lost track of the state: no prediction for the last program
    mout = m.run(op['prog'])
    if case['ops'][-1].get('ast_names'):
        ctx.probe('ast_names_expression')
        in_domain = False
    if in_domain and mout[0] == 'value' and twin.kind == 'value' and canon.canon(mout[1]) == tsig[1]:
        ctx.probe('ops_lower_bound_checked')
        if K < m.steps:
            ctx.report('fewer_operations_than_nodes', '%s: the reference semantics evaluate %d syntax-tree nodes, the system performed only %d node '
                       'evaluations (work that is not counted cannot be limited)' % (what, m.steps, K), {'kind': 'fewer_operations_than_nodes'})
    if K > 300:
        pick = sorted(set([1, 2, K - 1, K, K + 1, K + 2] + [1 + (i * 7919) % K for i in range(34)]))
        budgets = [n for n in pick if n >= 1]
    else:
        budgets = list(range(1, K + 3))
        ctx.probe('full_sweep')
    in_lambda_abort = False
    for N in budgets:
        rout, rec, names, _ = _run(case, src, budget=N)
        ctx.stats['budget_runs'] += 1
        sig = _sig(rout)
        ctx.event(N, sig[0], rec.nodes, len(rec.effects))
        if not attribution(rec, N):
            # nodes ran outside this call's budget: the remaining demands are meaningless for this N
            continue
        if rout.kind == 'base':
            ctx.report('non_exception_escaped', '%s budget=%d: %r' % (what, N, rout.exc), {'kind': 'non_exception_escaped'})
        if N > K:
            if sig != tsig:
                ctx.report('budget_changes_outcome', '%s: budget %d > K but outcome %s differs from the unbounded run %s' % (
                    what, N, str(sig)[:200], str(tsig)[:200]), {'kind': 'budget_changes_outcome'})
            if rec.effects != E:
                ctx.report('budget_changes_effects', '%s: budget %d > K but the effect log differs from the unbounded run' % (what, N),
                           {'kind': 'budget_changes_effects'})
            if canon.canon(names, monitors.M.fn_names) != tnames_c:
                ctx.report('budget_changes_names', '%s: budget %d > K but names differ from the unbounded run' % (what, N),
                           {'kind': 'budget_changes_names'})
            continue
        # N <= K: the N-th operation must not start
        limit_err = rout.kind == 'lang' and type(rout.exc).__name__ == 'OpsExecutionLimitExceededError'
        if swallow:
            if rec.gate_pass + rec.gate_hit > 0 and rec.gate_pass > N - 1:
                ctx.report('budget_overrun', '%s budget=%d: %d node evaluations passed the gate (swallowing host)' % (what, N, rec.gate_pass),
                           {'kind': 'budget_overrun'})
            continue
        if not limit_err:
            ctx.report('budget_not_enforced', '%s: needs %d operations, budget %d, but the outcome was %s instead of the ops-limit ParserError '
                       '(%d node evaluations started)' % (what, K, N, str(sig)[:160], rec.nodes), {'kind': 'budget_not_enforced'})
        if not isinstance(rout.exc, ParserError):
            ctx.report('limit_error_not_parsererror', '%s budget=%d: %r is not a ParserError' % (what, N, rout.exc), {'kind': 'limit_error_not_parsererror'})
        if rec.nodes != N:
            ctx.report('wrong_abort_point', '%s budget=%d: %d node evaluations started, expected exactly %d (the N-th is refused)' % (
                what, N, rec.nodes, N), {'kind': 'wrong_abort_point'})
        want = [e for e in E if e[0] <= N - 1]
        if rec.effects != want:
            ctx.report('effects_not_prefix', '%s budget=%d: host-visible effects %s are not the prefix %s of the unbounded run\'s effects' % (
                what, N, rec.effects[-4:], want[-4:]), {'kind': 'effects_not_prefix'})
        if want:
            ctx.probe('abort_after_effect')
        if rec.in_lambda or rec.kinds.get('LambdaOp'):
            pass
        if rec.nodes_in_hof:
            ctx.probe('abort_inside_hof')
            in_lambda_abort = True
        if rec.max_depth and rec.lambdas:
            pass
        if K <= 80 or N in (1, K // 2, K):
            krout, krec, knames, _ = _run(case, src, kill_at=N)
            ctx.probe('kill_twin_compared')
            a = canon.canon(knames, monitors.M.fn_names)
            b = canon.canon(names, monitors.M.fn_names)
            if a != b:
                ctx.report('abort_state_differs_from_kill', '%s budget=%d: names after the budget abort differ from names after an independent kill '
                           'at the start of node %d: %s vs %s' % (what, N, N, str(b)[:200], str(a)[:200]), {'kind': 'abort_state_differs_from_kill'})
    # (e) default budget is 100
    d_rout, d_rec, d_names, _ = _run(case, src, default=True)
    h_rout, h_rec, h_names, _ = _run(case, src, budget=100)
    ctx.probe('default_budget_checked')
    if not d_rec.foreign and _sig(d_rout) != _sig(h_rout):
        ctx.report('default_budget_not_100', '%s: outcome with the default budget %s differs from max_ops_evaluated=100 %s' % (
            what, str(_sig(d_rout))[:160], str(_sig(h_rout))[:160]), {'kind': 'default_budget_not_100'})
    kinds = set()
    for o in case['ops']:
        kinds.update(o.get('kinds', ()))
    if trec.kinds.get('LambdaOp') or 'calluser' in kinds:
        ctx.probe('abort_inside_lambda')
    if K >= 8 and (in_lambda_abort or 'calluser' in kinds or 'lambda' in kinds):
        ctx.nontrivial = True
    for k, v in trec.kinds.items():
        ctx.stats['nodekind:' + k] += v


def simplify(case):
    from ..shrink import simplify_trees
    yield from simplify_trees(case, None)


def sample(case):
    return {'world': case['world'], 'ops': [lang.render(o['prog'], 0) for o in case['ops']]}


def post_batch(agg):
    return {'evaluations': int(agg['stats'].get('budget_runs', 0)), 'programs_swept': int(agg['runs']),
            'node_kinds_evaluated': {k[9:]: v for k, v in agg['stats'].items() if k.startswith('nodekind:')}}
