"""C10 - scoping: innermost-first lookup, host write-back, no leaking lambda scopes (DESIGN.md section 5, C10).

Simulated: the scope stack is shared mutable state that must be unwound when a lambda call ends for any reason.
Faults (all synchronous, as the property's quantifier says): the body raises (undefined name, 1/0, a raising
host probe) while driven directly, by map/filter/reduce/sorted(key) or by a host callback; a host `attempt`
swallows the error and the program goes on; the op budget aborts inside a body; lambdas recurse; lambdas defined
by an earlier eval are called by a later one; multi-statement bodies supplied as ast_names assign to parameters,
locals and outer names. trace_kill is deliberately not used (an asynchronous exception inside pop_scope defeats
any finally; the property does not include it).
"""
from .. import canon, gen, lang, history, monitors, boot
from ..rng import Streams, weighted
from ..world import real_eval

from ..model import runaway

ID = 'C10'
LEVEL = 'exploration'
TIERS = {'quick': 8000, 'thorough': 300000}
RULE = ('seeded histories of 1-6 evals on one parser and one persistent host names mapping; programs bind the same '
        'identifier (pool x y v len max acc) at up to three levels (builtin, host/top-level, parameter/local) and read '
        'it before/during/after lambda calls that succeed or fail, driven directly, by map/filter/reduce/sorted or by '
        'the host callbacks call/attempt (attempt swallows the error), with recursion, cross-eval lambdas, ast_names '
        'multi-statement bodies and op-budget aborts inside bodies. Oracle: reference scope model (value, host names), '
        'FUNCTIONS table snapshot, scope-stack depth back to 2 after every eval, no leaked names after an aborted '
        'eval. non-trivial = a lambda call failed (or was aborted / swallowed) and a later part of the history was '
        'judged in full; distinct by sha256 of the case')
ASSUMPTIONS = ['a compound assignment inside an ast_names body that mutates a shared host list in place is outside the demand (not generated)',
               'asynchronous exceptions inside pop_scope are outside the property (only synchronous failures injected)']
REAL = ['smartquery.*']
STUB = ['host callbacks call / attempt / t / boom']
REACH_PROBES = ('second_names_mapping', 'parse_failure_between_evals', 'body_raised', 'host_swallow', 'budget_abort_in_lambda', 'shadow_builtin', 'shadow_host', 'recursion',
                'cross_eval_lambda', 'ast_names_body', 'failed_then_judged', 'depth_checked', 'hof_driver', 'same_source_other_mapping', 'eval_without_names', 'deep_dynamic_read')

POOL = ['x', 'y', 'v', 'len', 'max', 'acc']
HOFS = ['map', 'filter', 'reduce', 'sorted']


def _world(r):
    names = {}
    for nm in r.sample(POOL, r.randint(1, 4)):
        names[nm] = r.choice([{'d': '10'}, {'d': '3'}, 'host-' + nm, [1, 2], 7, None, 0, ''])
    w = {'names': names, 'host_fns': ['t', 'boom', 'call', 'attempt']}
    if r.random() < 0.3:
        w['cache'] = r.choice([{'kind': 'dict'}, {'kind': 'lru', 'bound': 2}])       # the parser caches parsed trees
    if r.random() < 0.12:
        w['names_kind'] = r.choice(['defaultdict', 'counter', 'ordered'])
    if r.random() < 0.15:
        w['thread_hop'] = True
    return w


class G:
    def __init__(self, r, model):
        self.r = r
        self.model = model
        self.kinds = set()
        self.pn = 0

    def probe_i(self):
        self.pn += 1
        return ['num', str(self.pn)]

    def body(self, params, depth=2, may_fail=True):
        """Expression over params and outer names; may contain a failing subexpression."""
        r = self.r
        k = weighted(r, [('param', 3), ('outer', 3), ('arith', 4), ('fail', 2.5 if may_fail else 0), ('probe', 2), ('list', 1.5),
                         ('lencall', 1.5), ('nested', 1.5), ('if', 1)])
        if depth <= 0:
            k = r.choice(['param', 'outer'])
        if k == 'param' and params:
            return ['name', r.choice(params)]
        if k == 'outer':
            return ['name', r.choice(POOL)] if r.random() < 0.8 else gen.num_tree(r)
        if k == 'arith':
            return ['bin', r.choice(['+', '-', '*']), self.body(params, depth - 1, may_fail), self.body(params, depth - 1, may_fail)]
        if k == 'fail':
            f = weighted(r, [('undef', 3), ('div0', 2), ('boom', 2), ('badindex', 1), ('condfail', 2)])
            self.kinds.add('body_may_fail')
            if f == 'undef':
                return ['name', 'undefined_' + r.choice('ab')]
            if f == 'div0':
                return ['bin', '/', ['num', '1'], ['num', '0']]
            if f == 'boom':
                return ['call', 'boom', [self.probe_i()], 'plain']
            if f == 'badindex':
                return ['index', ['list', []], ['num', '0']]
            p = ['name', r.choice(params)] if params else ['num', '1']
            return ['if', ['bin', '/', ['num', '1'], ['num', '0']], ['bin', '==', p, gen.num_tree(r, False)], p]
        if k == 'probe':
            return ['call', 't', [self.probe_i(), self.body(params, depth - 1, may_fail)], 'plain']
        if k == 'list':
            return ['list', [self.body(params, depth - 1, may_fail) for _ in range(r.randint(1, 2))]]
        if k == 'lencall':
            # a builtin name that may be shadowed at any level
            self.kinds.add('shadow_builtin')
            if r.random() < 0.3:
                # explicit calls of the names that literal / index sugar maps to: a binding of that name at any level wins
                return r.choice([['call', 'list', [self.body(params, 0), ['num', '2']], 'plain'], ['call', 'dict', [], 'plain'],
                                 ['call', 'list', [], 'plain']])
            return ['call', r.choice(['len', 'max']), [['list', [self.body(params, 0), ['num', '2']]]], 'plain']
        if k == 'nested':
            fns = [n for n, v in self.model.host.items() if getattr(v, '_sim_kind', '') == 'lambda'] + self.local_fns
            if fns:
                f = r.choice(fns)
                return ['call', f, [self.body(params, depth - 1, may_fail)], 'plain']
            return ['name', r.choice(POOL)]
        if k == 'if':
            return ['if', self.body(params, depth - 1, may_fail), ['bin', '<', self.body(params, 0), gen.num_tree(r)], self.body(params, depth - 1, may_fail)]
        return ['name', r.choice(POOL)]

    local_fns = []

    def define(self):
        r = self.r
        if r.random() < 0.06:
            # a recursion dozens of frames deep whose innermost frame reads a parameter of the call that started it
            # (names resolve through ALL the calls in progress, however many there are)
            self.kinds.add('recursion')
            self.kinds.add('deep_dynamic_read')
            depth = r.choice([35, 45, 70])
            self.extra_stmts = [['assign', 'down', ['lambda', ['p'], ['if', ['name', 'k9'], ['bin', '<=', ['name', 'p'], ['num', '0']],
                                                                      ['call', 'down', [['bin', '-', ['name', 'p'], ['num', '1']]], 'plain']]]]]
            self.local_fns = self.local_fns + ['f']
            self.fixed_args = [['str', 'started-here'], ['num', str(depth)]]
            return ['assign', 'f', ['lambda', ['k9', 'p'], ['call', 'down', [['name', 'p']], 'plain']]], 'f', 2
        fname = r.choice(['f', 'g', 'h'])
        n = r.choice([1, 1, 2])
        params = r.sample(POOL[:4] + ['p'] + (['list', 'dict'] if r.random() < 0.25 else []), n)
        if any(p in self.model.host for p in params):
            self.kinds.add('shadow_host')
        if r.random() < 0.15 and n == 1:
            self.kinds.add('recursion')
            p = params[0]
            rec_call = ['call', fname, [['bin', '-', ['name', p], ['num', '1']]], 'plain']
            # the parameter is read after the inner call returned (re-entrancy) or before it
            step = ['bin', '+', rec_call, ['name', p]] if r.random() < 0.6 else ['bin', '+', ['name', p], rec_call]
            body = ['if', self.body(params, 1), ['bin', '<=', ['name', p], ['num', '0']], step]
        else:
            body = self.body(params, r.choice([1, 2, 3]))
        self.local_fns = self.local_fns + [fname]
        return ['assign', fname, ['lambda', params, body]], fname, n

    def use(self, fname, n):
        r = self.r
        args = [r.choice([gen.num_tree(r, False), ['name', r.choice(POOL)], ['num', '2'], ['none']]) for _ in range(n)]
        if getattr(self, 'fixed_args', None) and fname == 'f':
            args = list(self.fixed_args)
        k = weighted(r, [('direct', 4), ('hof', 4), ('call', 2), ('attempt', 3)])
        if k == 'direct':
            return ['call', fname, args, 'plain']
        if k == 'hof':
            self.kinds.add('hof_driver')
            h = r.choice(HOFS)
            seq = ['list', [gen.num_tree(r, False) if r.random() < 0.85 else ['none'] for _ in range(r.randint(1, 3))]]
            if h == 'reduce':
                return ['call', 'reduce', [seq, ['name', fname]], gen.sugar(r, 2)]
            if h == 'sorted':
                return ['call', 'sorted', [seq, ['name', fname]], gen.sugar(r, 2)]
            return ['call', h, [seq, ['name', fname]], gen.sugar(r, 2)]
        if k == 'call':
            return ['call', 'call', [['name', fname]] + args, 'plain']
        self.kinds.add('attempt')
        return ['call', 'attempt', [['name', fname]] + args, 'plain']

    def observe(self):
        """Top-level reads of the shared identifiers after the calls."""
        r = self.r
        items = [['name', n] for n in r.sample(POOL, r.randint(1, 3)) if n in self.model.host or r.random() < 0.15]
        items.append(['call', 'len', [['list', [['num', '1']]]], 'plain'])
        return ['list', items]

    def program(self):
        r = self.r
        stmts = []
        self.local_fns = []
        known = [(n, len(v.params)) for n, v in self.model.host.items() if getattr(v, '_sim_kind', '') == 'lambda']
        if known and r.random() < 0.5:
            self.kinds.add('cross_eval_lambda')
            fname, n = r.choice(known)
        else:
            self.extra_stmts, self.fixed_args = [], None
            st, fname, n = self.define()
            stmts.extend(self.extra_stmts)
            stmts.append(st)
        if r.random() < 0.3:
            v = r.choice(POOL + (['list', 'dict'] if r.random() < 0.3 else []))
            if v in ('list', 'dict'):
                self.kinds.add('shadow_builtin')
                stmts.append(['assign', v, ['lambda', ['q'], ['str', 'shadowed-' + v]]])
                if v == 'list' and r.random() < 0.5:
                    # the literal [..] IS a call of whatever `list` is bound to - for 3 elements and for 70
                    stmts.append(['assign', 'r1', ['list', [['num', str(i % 9)] for i in range(r.choice([1, 3, 70]))]]])
                v = None
            if v is None:
                pass
            else:
                if v in ('len', 'max'):
                    self.kinds.add('shadow_builtin')
                stmts.append(['assign', v, r.choice([gen.num_tree(r), ['str', 'top-' + v], ['list', [['num', '1']]], ['none']])])
        if r.random() < 0.06:
            # compound assignment to a name that is bound at the builtin level only: it fails and binds nothing
            bn = r.choice([n for n in ['len', 'max', 'keys', 'sum'] if n not in self.model.host] or ['keys'])
            stmts.append(['short', bn, r.choice(['+=', '*=', '-=']), ['num', '1']])
            self.kinds.add('shadow_builtin')
        if r.random() < 0.06:
            # the names that index sugar maps to are names like any other: a binding at any level wins over the builtin
            self.kinds.add('shadow_builtin')
            if r.random() < 0.5:
                stmts.append(['assign', '__getitem__', ['lambda', ['q1', 'q2'], ['str', 'shadowed-index']]])
                stmts.append(['assign', 'r1', ['index', ['list', [['num', '1'], ['num', '2']]], ['num', '0']]])
            else:
                stmts.append(['assign', 'hh', ['lambda', ['__getitem__'], ['index', ['list', [['num', '1'], ['num', '2']]], ['num', '0']]]])
                stmts.append(['assign', 'r2', ['call', 'hh', [['lambda', ['a1', 'a2'], ['str', 'param-index']]], 'plain']])
        if r.random() < 0.15:
            # host / top-level / parameter bindings win over builtins of the same name whatever their signature
            bn = r.choice(['len', 'sum', 'pop', 'get', 'str', 'keys'])
            self.kinds.add('shadow_builtin')
            if r.random() < 0.5:
                stmts.append(['assign', bn, ['lambda', ['q1', 'q2', 'q3'], ['list', [['name', 'q1'], ['name', 'q3']]]]])
                stmts.append(['assign', 'r1', ['call', bn, [['num', '1'], ['num', '2'], ['num', '3']], 'plain']])
            else:
                stmts.append(['assign', 'hh', ['lambda', [bn, 'q2'], ['call', bn, [['name', 'q2'], ['num', '0'], ['num', '1'], ['num', '2']], 'plain']]])
                stmts.append(['assign', 'r2', ['call', 'hh', [['lambda', ['a1', 'a2', 'a3', 'a4'], ['name', 'a4']], ['num', '5']], 'plain']])
        for _ in range(r.randint(1, 3)):
            u = self.use(fname, n)
            x = r.random()
            if x < 0.4:
                stmts.append(['assign', r.choice(['r1', 'r2', 'acc']), u])
            else:
                stmts.append(u)
            if r.random() < 0.3:
                stmts.append(['assign', r.choice(POOL), gen.num_tree(r) if r.random() < 0.8 else ['none']])
        stmts.append(self.observe())
        return ['block', stmts]

    def ast_body(self):
        """Multi-statement lambda body supplied through ast_names: assigns to params, locals and outer names."""
        r = self.r
        params = r.sample(POOL[:4], r.choice([1, 2]))
        stmts = []
        for _ in range(r.randint(1, 3)):
            tgt = r.choice(params + ['loc', r.choice(POOL)])
            if r.random() < 0.7:
                stmts.append(['assign', tgt, self.body(params, 1, may_fail=r.random() < 0.3)])
            else:
                stmts.append(['short', tgt if tgt in params else params[0], r.choice(['+=', '-=']), gen.num_tree(r, False)])
        stmts.append(self.body(params + ['loc'] if any(s[1] == 'loc' for s in stmts if s[0] == 'assign') else params, 1, may_fail=False))
        return {'params': params, 'body': ['block', stmts]}


def _apply_model(model, op):
    _bind_ast(model, op)
    return model.run(op['prog'])


def _bind_ast(model, op):
    from ..model import MLambda
    for k, spec in (op.get('ast_names') or {}).items():
        lam = MLambda(list(spec['params']), spec['body'], model)
        lam.epoch = model.epoch + 1       # it belongs to the eval call that is about to run
        model.host[k] = lam


def generate(seed, tier):
    S = Streams(seed)
    rc, ro, rf = S['config'], S['ops'], S['faults']
    world = _world(rc)
    models = [history.model_only(world)]
    if rc.random() < 0.5:
        # a second, independent host names mapping served by the SAME parser (scopes of one must never reach the other)
        world['second'] = _world(rc)
        models.append(history.model_only(world['second']))
    ops = []
    for _ in range(rc.randint(1, 6)):
        si = ro.randrange(len(models))
        model = models[si]
        g = G(ro, model)
        op = {'op': 'eval', 'space': si}
        if rf.random() < 0.05:
            # an evaluation given NO names mapping at all: what it assigns is its own business and nobody else's
            ops.append({'op': 'nonames', 'space': si, 'src': rf.choice(['total = 4', 'len = 3', 'x = 1; y = x + 1', 'max = v => 0; max(1)', 'acc = [1]; acc'])})
            continue
        if rf.random() < 0.12:
            # a call whose text does not parse (fault between "scope pushed" and "evaluation started")
            from .. import badsrc
            bk, text = badsrc.make_bad(rf, lang.render(g.program(), 0))
            if bk in ('premature_end', 'unbalanced_open', 'unbalanced_close', 'illegal_char', 'unterminated_string', 'reserved_word', 'opener'):
                ops.append({'op': 'bad', 'space': si, 'src': text, 'bad': bk})
                continue
        if ro.random() < 0.25:
            g.kinds.add('ast_names_body')
            spec = g.ast_body()
            nm = ro.choice(['af', 'ag'])
            op['ast_names'] = {nm: spec}
            _bind_ast(model, op)
        prog = g.program()
        if 'ast_names' in op and ro.random() < 0.8:
            nm = list(op['ast_names'])[0]
            n = len(op['ast_names'][nm]['params'])
            prog[1].insert(len(prog[1]) - 1, g.use(nm, n))
        op.update(prog=prog, style=gen.style(S['render']), kinds=sorted(g.kinds))
        if rf.random() < 0.15:
            op['budget'] = rf.randint(3, 40) if rf.random() < 0.7 else rf.choice([150, 300, 450])          # budget_abort somewhere inside the program (deep inside a recursion with the larger ones)
            ops.append(op)
            continue                                   # executed on scratch names in both worlds: state unchanged
        ops.append(op)
        out = _apply_model(model, op)
        if runaway(out):
            ops.pop()        # a time / memory bomb for both worlds: not part of the history
        if out[0] == 'unspec':
            break
        if 'ast_names' in op and len(models) > 1 and ro.random() < 0.5:
            # the very same text again, for the OTHER names mapping and without the helper: whatever the first call
            # bound belongs to the first mapping only
            op2 = {'op': 'eval', 'space': 1 - si, 'prog': prog, 'style': op['style'], 'kinds': ['same_source_other_mapping']}
            ops.append(op2)
            if _apply_model(models[1 - si], op2)[0] == 'unspec':
                break
    return {'world': world, 'ops': ops}


def _functions_snapshot():
    F = monitors.M.functions.FUNCTIONS
    return [(k, id(v)) for k, v in F.items()]


def _toplevel_targets(prog):
    return {st[1] for st in prog[1] if st[0] in ('assign', 'short')}


def execute(case, ctx):
    import copy
    W0 = history.World(case['world'])
    Ws = [W0]
    if case['world'].get('second'):
        Ws.append(history.World(case['world']['second'], parser=W0.parser))
    snap = _functions_snapshot()
    failed = False
    for step, op in enumerate(case['ops']):
        ctx.step = step
        W = Ws[op.get('space', 0)]
        if len(Ws) > 1:
            ctx.probe('second_names_mapping')
        if op['op'] == 'nonames':
            try:
                W.parser.eval(op['src'])
            except Exception:
                pass
            ctx.fault('names_omitted')
            ctx.probe('eval_without_names')
            now = _functions_snapshot()
            if now != snap:
                ctx.report('builtin_table_modified', 'step %d eval(%r) without a names mapping: FUNCTIONS changed: %s' % (
                    step, op['src'], sorted(set(map(str, now)) ^ set(map(str, snap)))[:6]), {'kind': 'builtin_table_modified'})
            continue
        if op['op'] == 'bad':
            from ..world import real_eval as _re
            rout = _re(W.parser, op['src'], W.names)
            ctx.fault('bad_source')
            ctx.probe('parse_failure_between_evals')
            if rout.kind == 'base':
                ctx.report('non_exception_escaped', 'step %d %r: %r' % (step, op['src'][:160], rout.exc), {'kind': 'non_exception_escaped'})
            if rout.kind != 'value':
                failed = True
            ctx.event(step, 'bad', rout.kind)
            continue
        src = lang.render(op['prog'], op.get('style', 0))
        ast_real = None
        if op.get('ast_names'):
            from smartquery.ast_ops import LambdaOp, NameOp
            ast_real = {}
            for k, spec in op['ast_names'].items():
                body_src = lang.render(spec['body'], 0)
                ast_real[k] = LambdaOp(args=[NameOp(p) for p in spec['params']], expr=boot.fresh_parser().parse(body_src))
        rec = monitors.Rec()
        if op.get('budget'):
            # aborted eval: runs on a scratch copy of the names (a half-executed program has legitimately done
            # part of its writes); judged for leaks / depth / tables only
            scratch = dict(W.names)
            before = set(scratch)
            rout = real_eval(W.parser, src, scratch, budget=op['budget'], rec=rec, ast_names=ast_real)
            W.host.log[:] = W.model.log       # probe effects of the aborted call are not replayed in the model
            if rout.kind == 'lang' and 'limit' in str(rout.exc).lower():
                ctx.fault('budget_abort')
                if rec.lambda_nodes or any(k in rec.kinds for k in ('LambdaOp',)):
                    ctx.probe('budget_abort_in_lambda')
                failed = True
            allowed = before | _toplevel_targets(op['prog']) | set(op.get('ast_names') or ())
            leaked = [k for k in scratch if k not in allowed]
            if leaked:
                ctx.report('scope_leak_after_abort', 'step %d %r budget=%d: names %s appeared in the host mapping (parameters/locals leaked)' % (
                    step, src[:200], op['budget'], leaked), {'kind': 'scope_leak'})
            ctx.event(step, 'aborted', rout.brief())
        else:
            _bind_ast(W.model, op)
            rout = real_eval(W.parser, src, W.names, rec=rec, ast_names=ast_real)
            mout = W.model.run(op['prog'])
            from ..world import compare_with_model
            judged = compare_with_model(ctx, mout, rout, W.model.host, W.names, 'step %d %r' % (step, src[:300]))
            if not judged:
                break
            if W.host.log != W.model.log:
                ctx.report('probe_log_mismatch', 'step %d %r: host probe log: model %s, system %s' % (
                    step, src[:200], W.model.log[-8:], W.host.log[-8:]), {'kind': 'probe_log_mismatch'})
            ctx.event(step, 'eval', canon.digest(rout.brief()), mout[0])
            if mout[0] != 'value':
                ctx.fault('body_raise' if 'body_may_fail' in op.get('kinds', ()) else 'program_error')
                ctx.probe('body_raised')
                failed = True
            elif failed:
                ctx.nontrivial = True
                ctx.probe('failed_then_judged')
            if W.host.swallowed:
                ctx.fault('host_swallow', W.host.swallowed)
                ctx.probe('host_swallow')
                W.host.swallowed = 0
                failed = True
                if mout[0] == 'value':
                    ctx.nontrivial = True
        for k in op.get('kinds', ()):
            if k in REACH_PROBES:
                ctx.probe(k)
        # (c) the builtin table itself is never modified
        now = _functions_snapshot()
        if now != snap:
            ctx.report('builtin_table_modified', 'step %d %r: FUNCTIONS changed: %s' % (
                step, src[:200], sorted(set(map(str, now)) ^ set(map(str, snap)))[:6]), {'kind': 'builtin_table_modified'})
        # (e) every scope stack seen is back at depth 2
        st = rec.state0
        scopes = getattr(getattr(st, 'names', None), 'scopes', None)
        if isinstance(scopes, list) and rec.scope_depth0 is not None:
            ctx.probe('depth_checked')
            # scopes pushed for lambda calls must be gone: never deeper than when the first node of the call started
            if len(scopes) > rec.scope_depth0:
                ctx.report('scope_stack_not_unwound', 'step %d %r: scope stack depth %d after the call returned, %d when its evaluation started (%s)' % (
                    step, src[:200], len(scopes), rec.scope_depth0, rout.brief()[:2]), {'kind': 'scope_stack_not_unwound'})
        ctx.op_kind('abort' if op.get('budget') else rout.kind)
        ctx.state(W.state_digest())


def simplify(case):
    from ..shrink import simplify_trees
    yield from simplify_trees(case, None)
    for i, op in enumerate(case['ops']):
        if op.get('budget') and 'prog' in op:
            o2 = {k: v for k, v in op.items() if k != 'budget'}
            yield dict(case, ops=case['ops'][:i] + [o2] + case['ops'][i + 1:])


def sample(case):
    return {'world': case['world'], 'ops': [[lang.render(o['prog'], 0) if 'prog' in o else o['src'], o.get('budget'), bool(o.get('ast_names')), o.get('space')] for o in case['ops']][:6]}
