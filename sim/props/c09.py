"""C09 - lazy and/or/if-else; every other operand evaluated exactly once, left to right (DESIGN.md section 5, C09).

Simulated: the host is a party whose calls are the only observable effects. Leaves of generated expressions are
host probes t(i, v) (log i, return v); a fault plan makes the k-th probe invocation raise HostError. One case =
one expression shape evaluated under all (<= 32: enumerated, else sampled) truth-value assignments of the probes
that feed lazy operators, plus raising-probe variants. Oracle: the reference model evaluates the same tree with the
same probes; the ordered probe log, the value (and/or yield the deciding operand itself) and the names mapping
must be equal; with a raising probe the log ends with that probe and HostError propagates unchanged.
"""
import itertools

from .. import gen, lang, history
from ..rng import Streams, weighted

ID = 'C09'
LEVEL = 'exploration'
TIERS = {'quick': 8000, 'thorough': 300000}
RULE = ('seeded expression/statement shapes (<= ~30 nodes) over every node kind with operands (binary operators, '
        'and/or/if-else nests, call/method/pipe argument lists, list and dict literals, all slice forms, index, '
        'assignment, compound assignment, index assignment and compound index assignment, del, lambda bodies '
        'driven by map) with a host probe t(i, v) at ~75% of the leaves and plain literals at the rest; per shape '
        'all truth assignments of the lazy-feeding leaves (enumerated when <= 5 such leaves, sampled at 32 '
        'otherwise) and raising-probe variants (k-th probe call raises); oracle = equality of ordered probe log, '
        'value and names with the reference model. non-trivial = the shape contains a lazy operator or >= 3 probes '
        'and at least one raising variant fired; distinct by sha256 of the case')
ASSUMPTIONS = ['whether the callee name is looked up before or after its arguments are evaluated is not observable and not judged',
               'probe values are scalars / small lists; the reference model defines the expected order from the property statement']
REAL = ['smartquery.*']
STUB = ['host probes t / boom (scripted, with a fault plan)']
REACH_PROBES = ('lazy_and', 'lazy_or', 'if', 'probe_raise_fired', 'slice', 'dict_literal', 'setitem', 'setitemop',
                'short', 'lambda_body_probe', 'literal_leaf_next_to_lazy', 'call_args', 'del', 'lamcall', 'undefined_callee', 'same_operand_twice', 'lazy_right_changes_left', 'nested_lambda_calls', 'lambda_of_earlier_call', 'failing_literal_negation', 'big_dict_literal')

TRUTHY = {'num': [['num', '1'], ['num', '2.5'], ['neg', ['num', '3']]], 'str': [['str', 'a'], ['str', '0']],
          'bool': [['bool', True]], 'list': [['list', [['num', '1']]], ['list', [['list', []]]]], 'none': [['num', '7']]}
FALSY = {'num': [['num', '0'], ['num', '0.0']], 'str': [['str', '']], 'bool': [['bool', False]], 'list': [['list', []]],
         'none': [['none']]}


class Shape:
    def __init__(self, r):
        self.r = r
        self.n = 0
        self.holes = []       # (probe index) of leaves feeding a lazy operator: value chosen per assignment
        self.kinds = set()
        self.size = 0
        self.in_lambda = 0

    def lit(self, ty):
        r = self.r
        if r.random() < 0.03:
            # a negation that cannot be computed: an error of the EVALUATION of that operand (if it is evaluated at all)
            self.kinds.add('failing_literal_negation')
            return ['neg', r.choice([['str', 'x'], ['none'], ['list', []]])]
        if ty == 'num':
            return gen.num_tree(r)
        if ty == 'str':
            return gen.str_tree(r)
        if ty == 'bool':
            return ['bool', r.random() < 0.5]
        if ty == 'list':
            return ['list', [gen.num_tree(r) for _ in range(r.randint(0, 3))]]
        if ty == 'dict':
            return ['dict', [[['str', k], gen.num_tree(r)] for k in r.sample(['a', 'b', 'c'], r.randint(0, 2))]]
        return gen.scalar_tree(r)

    def leaf(self, ty, lazy_feed=False):
        """A probe t(i, v) (or, sometimes, a bare literal). lazy_feed: its truthiness selects a branch."""
        r = self.r
        self.size += 1
        if self.in_lambda and ty == 'num' and not lazy_feed and r.random() < 0.3:
            return ['name', 'v']
        if r.random() < 0.25:
            if lazy_feed:
                self.kinds.add('literal_leaf_next_to_lazy')
                v = r.choice((TRUTHY if r.random() < 0.5 else FALSY).get(ty, TRUTHY['num']))
                return v
            return self.lit(ty)
        self.n += 1
        i = self.n
        if lazy_feed:
            self.holes.append((i, ty if ty in TRUTHY else 'num'))
            return ['call', 't', [['num', str(i)], ['hole', i]], 'plain']
        if r.random() < 0.08:
            return ['call', 't', [['num', str(i)]], 'plain']
        return ['call', 't', [['num', str(i)], self.lit(ty)], 'plain']

    def e(self, ty, d, lazy_feed=False):
        r = self.r
        if d <= 0 or r.random() < 0.2 or self.size > 26:
            return self.leaf(ty, lazy_feed)
        self.size += 1
        k = weighted(r, [('and', 3), ('or', 3), ('if', 3), ('typed', 7), ('lazymut', 0.8 if ty in ('list', 'any', 'num', 'str') else 0)])
        if k == 'lazymut':
            # the right operand changes the truth value of the left one (a one-element list emptied, an empty one filled):
            # the deciding operand was decided when it was evaluated, once
            self.kinds.add('lazy_right_changes_left')
            self.n += 1
            if r.random() < 0.5:
                return ['bin', 'and', ['name', 'J'], ['call', 'pop', [['call', 't', [['num', str(self.n)], ['name', 'J']], 'plain']], 'plain']]
            return ['bin', 'or', ['name', 'E'], ['call', 'push', [['call', 't', [['num', str(self.n)], ['name', 'E']], 'plain'], ['num', '1']], 'plain']]
        if k == 'and' or k == 'or':
            self.kinds.add('lazy_' + k)
            return ['bin', k, self.e(ty if r.random() < 0.5 else 'num', d - 1, True), self.e(ty, d - 1, lazy_feed)]
        if k == 'if':
            self.kinds.add('if')
            return ['if', self.e(ty, d - 1, lazy_feed), self.e(r.choice(['num', 'bool', 'str', 'list']), d - 1, True),
                    self.e(ty, d - 1, lazy_feed)]
        return getattr(self, 't_' + (ty if ty in ('num', 'str', 'bool', 'list', 'dict') else 'num'))(d - 1)

    def call(self, f, args):
        self.kinds.add('call_args')
        if self.r.random() < 0.04:
            # the callee does not exist: its arguments are still evaluated (once, left to right) before the call fails
            f = self.r.choice(['nosuch', 'undefined_fn'])
            self.kinds.add('undefined_callee')
        return ['call', f, args, gen.sugar(self.r, len(args))]

    def t_num(self, d):
        r = self.r
        k = weighted(r, [('arith', 6), ('neg', 1), ('call2', 2), ('index', 2), ('len', 1), ('round', 1), ('tnest', 1), ('get', 1)])
        if k == 'arith':
            left = self.e('num', d)
            if r.random() < 0.12:
                # the very same (impure) operand expression on both sides: still two evaluations
                self.kinds.add('same_operand_twice')
                import copy as _c
                return ['bin', r.choice(['+', '-', '*', '/']), left, _c.deepcopy(left)]
            return ['bin', r.choice(['+', '-', '*', '/', '**']), left, self.e('num', d)]
        if k == 'neg':
            return ['neg', self.e('num', d)]
        if k == 'call2':
            return self.call(r.choice(['max', 'min']), [self.e('num', d) for _ in range(r.randint(2, 4))])
        if k == 'index':
            return ['index', self.e('list', d), self.e('num', 0)]
        if k == 'len':
            return self.call('len', [self.e('list', d)])
        if k == 'round':
            return self.call('round', [self.e('num', d), self.e('num', 0)])
        if k == 'get':
            self.kinds.add('dict_literal')
            return self.call('get', [self.t_dict(d), self.e('str', 0), self.e('num', d)])
        self.n += 1
        return ['call', 't', [['num', str(self.n)], self.e('num', d)], 'plain']

    def t_bool(self, d):
        r = self.r
        k = weighted(r, [('cmp', 5), ('not', 1.5), ('in', 2), ('starts', 1), ('cmpcmp', 1.5)])
        if k == 'cmpcmp':
            # a comparison whose operand is itself a (parenthesised) comparison: still three operands, each once
            inner = ['bin', r.choice(['<', '==', '!=', '>=']), self.e('num', d), self.e('num', d)]
            other = self.e(r.choice(['bool', 'num']), d)
            return ['bin', r.choice(['==', '!=', '<', '>']), inner, other] if r.random() < 0.7 else ['bin', r.choice(['==', '!=']), other, inner]
        if k == 'cmp':
            return ['bin', r.choice(['<', '<=', '>', '>=', '==', '!=']), self.e('num', d), self.e('num', d)]
        if k == 'not':
            return ['not', self.e('bool', d)]
        if k == 'in':
            return ['bin', r.choice(['in', 'notin']), self.e('num', d), self.e('list', d)]
        return self.call('startswith', [self.e('str', d), self.e('str', 0)])

    def t_str(self, d):
        r = self.r
        k = weighted(r, [('concat', 4), ('replace', 2), ('join', 2), ('str', 1), ('slice', 1)])
        if k == 'concat':
            return ['bin', '+', self.e('str', d), self.e(r.choice(['str', 'num', 'bool']), d)]
        if k == 'replace':
            return self.call('replace', [self.e('str', d), self.e('str', 0), self.e('str', 0)])
        if k == 'join':
            return self.call('join', [['list', [self.e('str', d - 1) for _ in range(r.randint(0, 3))]], self.e('str', 0)])
        if k == 'slice':
            return self.slice_(self.e('str', d), d)
        return self.call('str', [self.e('num', d)])

    def slice_(self, c, d):
        r = self.r
        shape = r.choice(lang.SLICE_SHAPES + (('::s', '::s', ':b:', 'a::') if self.in_lambda else ()))
        self.kinds.add('slice')
        a = b = None
        if shape != ':':
            a = self.e('num', min(d, 1))
        if shape == 'a:b':
            b = self.e('num', min(d, 1))
        return ['slice', c, shape, a, b]

    def t_list(self, d):
        r = self.r
        if self.in_lambda and r.random() < 0.4:
            # a slice node inside a lambda body is evaluated once per element: bounds must be re-evaluated each time
            return self.slice_(['name', 'L'] if r.random() < 0.6 else self.e('list', d), d)
        k = weighted(r, [('lit', 5), ('slice', 3), ('concat', 1.5), ('call', 2), ('map', 1.5), ('dictvals', 1)])
        if k == 'lit':
            return ['list', [self.e(r.choice(['num', 'num', 'str', 'bool', 'list']), d) for _ in range(r.randint(0, 4))]]
        if k == 'slice':
            return self.slice_(self.e('list', d), d)
        if k == 'concat':
            return ['bin', '+', self.e('list', d), self.e('list', d)]
        if k == 'call':
            f = r.choice(['list', 'sorted', 'reversed'])
            if f == 'list':
                return self.call('list', [self.e(r.choice(['num', 'str']), d) for _ in range(r.randint(0, 4))])
            return self.call(f, [self.e('list', d)])
        if k == 'map':
            self.kinds.add('lambda_body_probe')
            seq = self.e('list', d) if r.random() < 0.4 else ['list', [self.leaf('num') for _ in range(r.randint(2, 3))]]
            self.in_lambda += 1
            try:
                x = r.random()
                if x < 0.2:
                    # a lambda call inside a lambda call: the probes of the inner body run (and fail) two levels deep
                    self.kinds.add('nested_lambda_calls')
                    inner = ['lambda', ['w'], ['bin', r.choice(['+', '*']), ['name', 'w'], self.leaf('num')] if r.random() < 0.6 else self.leaf('num')]
                    body = ['call', r.choice(['map', 'filter', 'map']), [['list', [self.leaf('num'), ['name', 'v']]], inner], 'plain']
                elif x < 0.32:
                    # a slice whose only bound expression is the step (or stop): evaluated anew for every element
                    self.kinds.add('slice')
                    shape = r.choice(['::s', '::s', ':b:', 'a::', ':b'])
                    body = ['slice', ['name', 'L'], shape, self.leaf('num'), None]
                elif x < 0.6:
                    body = ['bin', r.choice(['+', '*', '-']), ['name', 'v'], self.e('num', min(d, 2))]
                else:
                    body = self.e(r.choice(['num', 'list', 'list', 'str', 'bool']), max(1, min(d, 2)))
            finally:
                self.in_lambda -= 1
            hof = r.choice(['map', 'map', 'filter', 'sorted', 'reduce'])
            if hof == 'reduce':
                return self.call('reduce', [seq, ['lambda', ['w', 'v'], body]])
            return self.call(hof, [seq, ['lambda', ['v'], body]])
        self.kinds.add('dict_literal')
        return self.call(r.choice(['values', 'keys', 'items']), [self.t_dict(d)])

    def t_dict(self, d):
        r = self.r
        self.kinds.add('dict_literal')
        if r.random() < 0.06 and self.size < 12:
            # 66 pairs: each key is followed by its value, the 66th like the 1st
            self.kinds.add('big_dict_literal')
            pairs = [[self.leaf('str'), self.leaf('num')] for _ in range(2)]
            pairs += [[['str', 'c%d' % i], ['num', str(i)]] for i in range(62)]
            pairs += [[self.leaf('str'), self.leaf('num')] for _ in range(2)]
            return ['dict', pairs]
        n = r.randint(0, 3)
        return ['dict', [[self.e(r.choice(['str', 'num']), min(d, 1)), self.e(r.choice(['num', 'str', 'list']), d)] for _ in range(n)]]

    def stmt(self, d):
        r = self.r
        k = weighted(r, [('expr', 6), ('assign', 2), ('short', 2), ('setitem', 3), ('setitemop', 2.5), ('del', 1.5), ('lamcall', 1.5)])
        self.kinds.add(k)
        if k == 'lamcall':
            # a program lambda applied directly; its body may fail (type error) after some of its probes ran: the body
            # is evaluated once per call, failing or not
            self.in_lambda += 1
            try:
                bad = ['bin', '+', ['name', 'v'], self.leaf('str')] if r.random() < 0.6 else self.e('num', 2)
                body = ['bin', r.choice(['+', '-']), self.e('num', 1), bad] if r.random() < 0.6 else bad
            finally:
                self.in_lambda -= 1
            call = ['call', 'g', [self.leaf('num')], 'plain']
            return ['block', [['assign', 'g', ['lambda', ['v'], body]], ['assign', 'x', call] if r.random() < 0.5 else call]]
        if k == 'expr':
            return self.e(r.choice(['num', 'num', 'bool', 'str', 'list', 'dict']), d)
        if k == 'assign':
            return ['assign', 'x', self.e(r.choice(['num', 'list', 'str']), d)]
        if k == 'short':
            return ['short', 'cnt', r.choice(['+=', '-=', '*=', '/=']), self.e('num', d)]
        cont = self.cont(d)
        if k == 'setitem':
            return ['setitem', cont, self.e('num', min(d, 1)), self.e(r.choice(['num', 'str', 'list']), d)]
        if k == 'setitemop':
            return ['setitemop', cont, self.e('num', min(d, 1)), r.choice(['+=', '-=', '*=', '/=']), self.e('num', d)]
        return ['del', cont, self.e('num', min(d, 1))]

    def cont(self, d):
        """Container operand of an index statement: the host list L reached through a probe or a lazy choice."""
        r = self.r
        x = r.random()
        self.n += 1
        base = ['call', 't', [['num', str(self.n)], ['name', 'L']], 'plain']
        if x < 0.5:
            return base
        if x < 0.75:
            self.kinds.add('if')
            return ['if', base, self.e('bool', min(d, 1), True), ['name', 'M']]
        return ['name', 'L']


def _fill(tree, values):
    if isinstance(tree, list):
        if tree and tree[0] == 'hole':
            return values[tree[1]]
        return [_fill(x, values) for x in tree]
    return tree


def _count_probes(tree):
    if isinstance(tree, list):
        n = 1 if (len(tree) > 1 and tree[0] == 'call' and tree[1] == 't') else 0
        return n + sum(_count_probes(x) for x in tree)
    return 0


def generate(seed, tier):
    S = Streams(seed)
    rc, ro, rf = S['config'], S['ops'], S['faults']
    sh = Shape(ro)
    n_st = weighted(ro, [(1, 6), (2, 2), (3, 1)])
    stmts = []
    for _ in range(n_st):
        st = sh.stmt(ro.choice([2, 3, 3, 4]))
        stmts.extend(st[1] if st[0] == 'block' else [st])
    prelude = None
    if rc.random() < 0.12:
        # an EARLIER evaluation on the same parser and names mapping left a lambda behind; this program calls it: its
        # parameter decides a lazy operator inside the body
        lz = rc.choice(['and', 'or'])
        prelude = ['block', [['assign', 'g', ['lambda', ['v'], ['bin', lz, ['call', 't', [['num', '90'], ['name', 'v']], 'plain'],
                                                                  ['call', 't', [['num', '91'], ['name', 'v']], 'plain']]]]]]
        stmts.append(['call', 'g', [sh.leaf('num', True)], 'plain'])
        sh.kinds.add('lambda_of_earlier_call')
    prog = ['block', stmts]
    holes = sh.holes
    if len(holes) <= 5:
        assigns = list(itertools.product([True, False], repeat=len(holes)))
    else:
        assigns = [tuple(rc.random() < 0.5 for _ in holes) for _ in range(32)]
    style = gen.style(S['render'])
    ops = []
    nprobes = max(1, _count_probes(prog))
    for a in assigns:
        values = {}
        for (i, ty), truth in zip(holes, a):
            values[i] = rc.choice((TRUTHY if truth else FALSY)[ty])
        p = _fill(prog, values)
        op = {'op': 'eval', 'prog': p, 'style': style if rc.random() < 0.7 else gen.style(S['render'])}
        ops.append(op)
        if rf.random() < 0.35:
            ops.append(dict(op, probe_fault=rf.randint(1, min(nprobes + 1, 12))))
            x_ = rf.random()
            if x_ < 0.2:
                ops[-1]['probe_fault_kind'] = 'value'     # ... or ValueError (the usual way to reject an argument)
            elif x_ < 0.45:
                ops[-1]['probe_fault_kind'] = 'stop'      # the host function raises StopIteration (an iterator behind it ran dry)
    world = {'prelude': prelude, 'names': {'L': [{'d': '1'}, {'d': '2'}, {'d': '3'}, 4], 'M': [10, 20], 'cnt': {'d': '5'}, 'J': ['a'], 'E': []}, 'host_fns': ['t']}
    return {'world': world, 'ops': ops, 'kinds': sorted(sh.kinds), 'n_probes': sh.n}


def execute(case, ctx):
    kinds = case.get('kinds', ())
    fired = False
    # every assignment starts from the same world: an op is (fresh names, one eval)
    for step, op in enumerate(case['ops']):
        ctx.step = step
        W = history.World(case['world'])
        if case['world'].get('prelude'):
            W.eval_and_judge(ctx, {'prog': case['world']['prelude']}, step)
        judged, rout, mout = W.eval_and_judge(ctx, op, step)
        ctx.op_kind(mout[0])
        if not judged:
            continue
        if op.get('probe_fault') and mout[0] == 'host':
            ctx.fault('probe_raise')
            ctx.probe('probe_raise_fired')
            fired = True
        ctx.stats['probe_calls'] += len(W.host.log)
    for k in kinds:
        ctx.probe(k)
    lazy = any(k in ('lazy_and', 'lazy_or', 'if') for k in kinds)
    if (lazy or case.get('n_probes', 0) >= 3) and fired:
        ctx.nontrivial = True


def simplify(case):
    from ..shrink import simplify_trees
    yield from simplify_trees(case, None)


def sample(case):
    return {'ops': [[lang.render(o['prog'], 0), o.get('probe_fault')] for o in case['ops']][:6]}
