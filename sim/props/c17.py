"""C17 - the parse cache is transparent (DESIGN.md section 5, C17).

Simulated: the cache is a storage node owned by the simulator with legal misbehaviour as its fault model (it may
forget, never lie): plain dict, pre-warmed by another parser, LRU bound 1-4, always-evicting, write-dropping,
evictions between calls, a cache whose callbacks re-enter the parser. One history drives two worlds: world A = a
long-lived parser with the cache fake, world B = a long-lived parser without cache living in an independently
imported copy of the package. Sources repeat (Zipf over a small pool) and come with near-duplicates that differ
only in surrounding characters of Python's str.strip() set; some fail. Between calls the host mutates results of
earlier evaluations in place, and names mappings alternate between uses of the same source.
"""
import copy

from .. import boot, canon, gen, lang, monitors, badsrc, seams, hooks
from ..proggen import ProgGen
from ..rng import Streams, weighted
from ..seams import ENTROPY, make_cache
from ..world import Host

ID = 'C17'
LEVEL = 'exploration'
TIERS = {'quick': 10000, 'thorough': 250000}
RULE = ('seeded histories of 8-40 parse/eval calls driving a cached parser (cache kind per run: dict, prewarmed, LRU '
        'bound 1-4, always-evicting, write-dropping, re-entering; evict_key/evict_all faults between calls) and an '
        'uncached twin parser with the same calls; sources drawn Zipf-style from a pool of 4-12 programs incl. failing '
        'ones and near-duplicates wrapped in str.strip() characters (space, tab, newlines, \\x0b \\x0c \\x1c-\\x1f '
        '\\x85 \\xa0 U+2028 ...); host_mutate faults change returned lists/dicts in place; 2 names mappings alternate. '
        'Oracle: per call equal result / exception class+message / names; every cached tree keeps its structural '
        'snapshot after every later call and equals what an uncached parse of exactly that key produces; failed '
        'sources are never cached. non-trivial = the cache served at least one hit after a fault (eviction, '
        'host mutation, failing source or near-duplicate) in this history; distinct by sha256 of the case')
ASSUMPTIONS = ['a cache never answers "present" and then KeyError with nothing in between (legal caches forget only between or at stores)',
               'object identity of returned trees is not demanded (structural equality)']
REAL = ['smartquery.* (two independently imported copies)', 'smartquery.ply']
STUB = ['parse_cache mapping (simulator-owned fakes)', 'host (mutates returned results)']
REACH_PROBES = ('cache_hit', 'hit_after_fault', 'near_duplicate_call', 'lru_evict', 'cache_evict', 'cache_drop_write',
                'host_mutate_result', 'failing_source', 'reentry', 'prewarmed_hit', 'same_source_other_names',
                'cached_tree_snapshot_checked', 'list_names_between_calls', 'decimal_context_switched', 'deferred_listing_read', 'host_calls_stored_lambda')

STRIP_CHARS = [' ', '\t', '\n', '\r\n', '\x0b', '\x0c', '\x1c', '\x1d', '\x1e', '\x1f', '\x85', '\xa0', ' ', ' ', '　', '  ', '\n\n']


def _world(r):
    kind = weighted(r, [('dict', 4), ('prewarmed', 2), ('lru', 4), ('evicting', 1.5), ('dropwrite', 1.5), ('reentrant', 1.5)])
    cache = {'kind': 'dict'} if kind == 'prewarmed' else {'kind': kind}
    if kind == 'lru':
        cache['bound'] = r.randint(1, 4)
    if kind == 'dropwrite':
        cache['every'] = r.randint(1, 3)
    spaces = []
    for _ in range(2):
        names = {}
        for nm in r.sample(['a', 'b', 'c', 'x', 'y'], r.randint(1, 4)):
            names[nm] = gen.host_value_spec(r, 2, floats=False)
        names['sep'] = [' ', ','][len(spaces)]       # the two mappings disagree on a value the same source reads
        spaces.append(names)
    return {'cache': cache, 'prewarm': kind == 'prewarmed', 'spaces': spaces}


def _result_prog(r, env):
    """Programs whose result is often a container (so the host can mutate it) and that contain literals."""
    g = ProgGen(r, env, max_depth=r.choice([1, 2, 3]), illtyped=0.03)
    x = r.random()
    if x < 0.35:
        return ['block', [g.expr(r.choice(['list', 'dict', 'list']), 2)]]
    if x < 0.5:
        return ['block', [r.choice([['list', []], ['dict', []], ['if', ['name', r.choice(list(env) or ['a'])], ['bool', False], ['list', []]],
                                    ['call', 'get', [['dict', []], ['str', 'k'], ['list', []]], 'plain']])]]
    return g.program(n_stmts=r.choice([1, 2, 3]))


def generate(seed, tier):
    S = Streams(seed)
    rc, ro, rf = S['config'], S['ops'], S['faults']
    world = _world(rc)
    env = {}
    from ..proggen import type_of
    for sp in world['spaces']:
        for k, v in sp.items():
            env[k] = type_of(lang.dec_value(v))
    pool = []
    for _ in range(rc.randint(4, 12)):
        prog = _result_prog(ro, env)
        src = lang.render(prog, gen.style(S['render']))
        if rf.random() < 0.2:
            _, src = badsrc.make_bad(rf, src)
        pool.append(src)
    deep_idx = None
    if rc.random() < 0.25:
        # deeply nested but perfectly valid programs (a limit on depth, if one exists, must treat both worlds alike);
        # the deepest ones are only parsed (the LR driver is iterative; evaluating them is a matter of interpreter stack)
        d = rc.choice([rc.randint(150, 320), 600, 1100, 1400])
        if d > 320:
            deep_idx = len(pool)
        pool.append(rc.choice(['- ' * d + '1', 'x = ' + '[' * d + ']' * d + '\nlen(x)', 'not ' * d + 'True',
                               '1' + ' + 1' * d, '0' + ' if False else 0' * min(d, 200)]))
    if rc.random() < 0.3:
        # results that are nested containers spelled entirely with constants (the host is going to change their INNER parts)
        pool.extend(rc.sample(['[[1, 2], [3]]', '{"a": [[1], [2, 3]]}', 'get({}, "k", [[7], []])', '[[], [[]]]', '[{"k": [1]}, [2]]', '[[1, 2], [3]] | reversed'], 2))
    if rc.random() < 0.35:
        # different programs whose texts a sloppy key normalisation would take for the same text
        fam = rc.choice([
            ['d = {"a b": 1, "a  b": 2}\nd["a b"]', 'd = {"a b": 1, "a  b": 2}\nd["a  b"]'],
            ['["#red", "#green"] | join(",")', '["#cyan"] | join(",")', '["#red"] | len'],
            ['"x  y" + "z"', '"x y" + "z"', '"x\ty" + "z"'],
            ['1234567 | pretty(sep)', '1234567 | pretty(sep)', '7654321.5 | pretty(sep)'],
            ['x = "a # b"\nlen(x)', 'x = "a # c"\nlen(x)'],
        ])
        pool.extend(fam)
    world['prewarm_sources'] = [s for s in pool if rc.random() < 0.5] if world['prewarm'] else []
    ops = []
    weights = [1.0 / (i + 1) for i in range(len(pool))]
    for _ in range(rc.randint(8, 40)):
        k = weighted(ro, [('eval', 6), ('parse', 3), ('host_mutate', 1.5), ('cache_fault', 1.2), ('list_names', 0.8), ('ctx', 0.3), ('hostcall', 0.8)])
        if k == 'hostcall':
            # outside any evaluation the host calls a lambda that an earlier evaluation left in one of its names mappings
            ops.append({'op': 'hostcall', 'space': ro.randrange(2), 'which': ro.randrange(4), 'arg': ro.choice([0, 1, 2, 'a'])})
            continue
        if k == 'ctx':
            # the host switches the thread's decimal context between calls (both worlds live under it)
            ops.append({'op': 'ctx', 'prec': ro.choice([5, 8, 28, 40, 3])})
            continue
        if k == 'list_names':
            # the dependency lister runs on the same parser objects, to the end or abandoned after j names
            ops.append({'op': 'list_names', 'src': ro.choice(pool + ['f(a, [b, {c: (d', 'a + (b', 'x[1', '{"k": [y, (z']), 'consume': ro.choice([None, None, 0, 1, 2, 3]),
                        'pool': 0, 'space': 0})
            if ro.random() < 0.35:
                ops[-1]['consume'] = None
                ops[-1]['defer'] = True      # requested now (generator not started), read after the next call
            continue
        if k == 'host_mutate':
            ops.append({'op': 'host_mutate', 'which': ro.randint(0, 3), 'how': ro.choice(['append', 'clear', 'set0', 'nested_append', 'nested_append'])})
            continue
        if k == 'cache_fault':
            ops.append({'op': 'cache_fault', 'kind': ro.choice(['evict_key', 'evict_key', 'evict_all']), 'which': ro.randrange(len(pool))})
            continue
        i = weighted(ro, list(zip(range(len(pool)), weights)))
        src = pool[i]
        if i == deep_idx:
            k = 'parse'
        near = None
        if ro.random() < 0.3:
            pre = ''.join(ro.choice(STRIP_CHARS) for _ in range(ro.randint(0, 2)))
            post = ''.join(ro.choice(STRIP_CHARS) for _ in range(ro.randint(0, 2)))
            if pre or post:
                near = True
                src = pre + src + post
        ops.append({'op': k, 'src': src, 'pool': i, 'near': near, 'space': ro.randrange(2), 'entropy': ro.randrange(2 ** 32)})
        if k == 'eval' and rf.random() < 0.08:
            ops[-1]['budget'] = rf.randint(1, 12)       # the evaluation is cut short by the ops limit (in both worlds alike)
    return {'world': world, 'ops': ops, 'pool': pool}


def tree_snapshot(t, depth=0):
    """Structural snapshot of a syntax tree: node classes, every field, and the instance attributes of literal values
    (a Decimal subclass instance can carry attributes that repr() does not show)."""
    if depth > 400:
        return '...'
    if isinstance(t, (list, tuple)):
        return [tree_snapshot(x, depth + 1) for x in t]
    d = getattr(t, '__dict__', None)
    if isinstance(d, dict) and not callable(t):
        if hasattr(t, 'eval'):
            return [type(t).__name__] + [[k, tree_snapshot(v, depth + 1)] for k, v in sorted(d.items())]
        return [repr(t), sorted((k, repr(v)) for k, v in d.items())]
    return repr(t)


class Side:
    def __init__(self, cfg, cached):
        self.host = Host()
        self.spaces = [{k: lang.dec_value(v) for k, v in sp.items()} for sp in cfg['spaces']]
        self.results = []
        self.suspended = []
        self.tainted = False
        self.cache = None
        if cached:
            self.cache = make_cache(cfg['cache'])
            self.parser = boot.fresh_parser(self.cache)
            if hasattr(self.cache, 'parser'):
                self.cache.parser = self.parser
        else:
            self.parser = boot.twin_parser()


def _call(side, op):
    ENTROPY.script(op.get('entropy', 0))
    try:
        if op['op'] == 'parse':
            return ['value', canon.tree_digest(side.parser.parse(op['src']))]
        if op['op'] == 'list_names':
            got = []
            it = iter(side.parser.list_names(op['src']))
            n = op.get('consume')
            while n is None or len(got) < n:
                try:
                    got.append(next(it))
                except StopIteration:
                    break
            if n is not None:
                side.suspended.append(it)       # abandoned midway, kept alive
            return ['value', got]
        if side.cache is not None:
            rec = monitors.Rec()
            rec.track_kinds = False
            rec.value_hooks = (hooks.address_taint_hook,)
            try:
                with monitors.recording(rec):
                    v = side.parser.eval(op['src'], side.spaces[op['space']], max_ops_evaluated=op.get('budget', 2000))
            finally:
                if rec.tainted:
                    side.tainted = True
        else:
            v = side.parser.eval(op['src'], side.spaces[op['space']], max_ops_evaluated=op.get('budget', 2000))
        if isinstance(v, (list, dict)):
            side.results.append(v)
        return ['value', canon.canon(v, monitors.M.fn_names)]
    except Exception as e:
        return ['exc', type(e).__module__ + '.' + type(e).__qualname__, canon.norm_msg(str(e))]
    except BaseException as e:
        if type(e).__name__ in ('RunTimeout', 'RunTooBig'):
            raise
        return ['base', type(e).__name__, str(e)[:100]]


def _drain(g):
    try:
        return ['value', list(g)]
    except Exception as e:
        return ['exc', type(e).__name__, canon.norm_msg(str(e))]


def _hostcall(f, arg):
    try:
        return ['value', canon.canon(f(arg), monitors.M.fn_names)]
    except RecursionError:
        return ['exc', 'RecursionError']
    except Exception as e:
        return ['exc', type(e).__module__ + '.' + type(e).__qualname__, canon.norm_msg(str(e))]


def execute(case, ctx):
    from ..history import host_mutate
    cfg = case['world']
    A = Side(cfg, True)
    B = Side(cfg, False)
    snapshots = {}      # id(tree) -> (key, tree, repr at store time)

    def on_store(k, tree):
        snapshots[id(tree)] = (k, tree, tree_snapshot(tree))
    A.cache.on_store = on_store
    if cfg.get('prewarm_sources'):
        other = boot.fresh_parser()
        for s_ in cfg['prewarm_sources']:
            try:
                t = other.parse(s_.rstrip())
            except Exception:
                continue
            A.cache.d[s_.rstrip()] = t
            on_store(s_.rstrip(), t)
        ctx.fault('cache_prewarm')
    fault_seen = False
    used = {}
    pending = []
    for step, op in enumerate(case['ops']):
        ctx.step = step
        ctx.op_kind(op['op'])
        if op['op'] == 'host_mutate':
            for side in (A, B):
                if side.results:
                    tgt = side.results[op['which'] % len(side.results)]
                    ch = host_mutate(tgt, op['how'], 'HM')
            if A.results:
                ctx.fault('host_mutate')
                ctx.probe('host_mutate_result')
                fault_seen = True
            if [canon.canon(x, monitors.M.fn_names) for x in A.results] != [canon.canon(x, monitors.M.fn_names) for x in B.results]:
                ctx.report('results_diverged_after_host_mutation', 'step %d: results held by the host differ between cached and uncached worlds' % step,
                           {'kind': 'results_diverged_after_host_mutation'})
            continue
        if pending and pending[0][4] >= 1 and not op.get('defer'):
            # listings requested earlier are read now: at least one parse / eval went through the parsers in between
            for (st0, src0, ga, gb, _n) in pending:
                ra, rb = _drain(ga), _drain(gb)
                ctx.probe('deferred_listing_read')
                if ra != rb:
                    ctx.report('cache_not_transparent', 'list_names(%r) requested at step %d and read after the next call: cached parser -> %s ; uncached parser -> %s' % (
                        src0[:120], st0, str(ra)[:200], str(rb)[:200]), {'kind': 'cache_not_transparent', 'call': 'list_names-deferred'})
            pending = []
        if op['op'] == 'hostcall':
            fa = sorted(k for k, v in A.spaces[op['space']].items() if callable(v))
            fb = sorted(k for k, v in B.spaces[op['space']].items() if callable(v))
            if fa and fa == fb:
                nm = fa[op['which'] % len(fa)]
                ra = _hostcall(A.spaces[op['space']][nm], op['arg'])
                rb = _hostcall(B.spaces[op['space']][nm], op['arg'])
                ctx.fault('call_outside_eval')
                ctx.probe('host_calls_stored_lambda')
                na = canon.canon(A.spaces, monitors.M.fn_names)
                nb = canon.canon(B.spaces, monitors.M.fn_names)
                if ra != rb or na != nb:
                    ctx.report('cache_not_transparent', 'step %d: the host called the stored lambda %s(%r) outside any evaluation: cached world -> %s, uncached world -> %s%s' % (
                        step, nm, op['arg'], str(ra)[:160], str(rb)[:160], '' if na == nb else ' ; names mappings differ afterwards'),
                        {'kind': 'cache_not_transparent', 'call': 'hostcall'})
            continue
        if op.get('defer') and op['op'] == 'list_names':
            try:
                pending.append([step, op['src'], A.parser.list_names(op['src']), B.parser.list_names(op['src']), 0])
                ctx.fault('listing_read_later')
            except Exception:
                pass
            continue
        if op['op'] == 'ctx':
            import decimal
            decimal.getcontext().prec = op['prec']
            ctx.fault('decimal_context_switch')
            ctx.probe('decimal_context_switched')
            continue
        if op['op'] == 'cache_fault':
            before = len(A.cache.d)
            if op['kind'] == 'evict_all':
                A.cache.evict_all()
            else:
                src = case['pool'][op['which']]
                A.cache.evict_key(src)
                A.cache.evict_key(src.rstrip())
            if len(A.cache.d) != before:
                ctx.fault('cache_evict')
                fault_seen = True
            continue
        hits0 = A.cache.stats['hit']
        a = _call(A, op)
        b = _call(B, op)
        for pe in pending:
            pe[4] += 1
        hit = A.cache.stats['hit'] > hits0
        from ..history import strings_too_big
        if op['op'] == 'eval' and strings_too_big(A.spaces[op['space']]):
            ctx.stats['stopped_string_growth'] += 1
            break
        if A.tainted:
            ctx.stats['stopped_after_address_text'] += 1
            break           # a program stringified a function: the two worlds now differ by memory addresses only
        ctx.event(step, op['op'], canon.digest(a), hit)
        ctx.state(canon.digest([sorted(A.cache.d), a[0]]))
        what = 'step %d %s(%r) [cache %s%s]' % (step, op['op'], op['src'][:160], cfg['cache']['kind'], ', hit' if hit else '')
        if a[0] == 'base':
            ctx.report('non_exception_escaped', '%s: %s' % (what, a), {'kind': 'non_exception_escaped'})
        ra = a[0] == 'exc' and 'RecursionError' in a[1]
        rb = b[0] == 'exc' and 'RecursionError' in b[1]
        if ra and not rb and op['op'] == 'parse':
            # parsing is iterative (LR driver) and both worlds run the same code from the same stack depth: only what
            # the cached path does on top of it can have used up the stack
            ctx.report('cache_not_transparent', '%s: the cached parser ran out of interpreter stack (%s), the uncached parser returned the tree' % (what, a[2][:80]),
                       {'kind': 'cache_not_transparent', 'call': 'parse-depth'})
        if ra or rb:
            ctx.stats['skipped_recursion_depth'] += 1     # interpreter stack depth is not a property of the library
            continue
        if op['op'] == 'list_names':
            ctx.probe('list_names_between_calls')
            if a != b:
                ctx.report('cache_not_transparent', '%s: cached parser -> %s ; uncached parser -> %s' % (what, str(a)[:240], str(b)[:240]),
                           {'kind': 'cache_not_transparent', 'call': 'list_names'})
            continue
        if a != b:
            ctx.report('cache_not_transparent', '%s: cached parser -> %s ; uncached parser -> %s' % (what, str(a)[:240], str(b)[:240]),
                       {'kind': 'cache_not_transparent', 'call': op['op']})
        if op['op'] == 'eval':
            na = canon.canon(A.spaces[op['space']], monitors.M.fn_names)
            nb = canon.canon(B.spaces[op['space']], monitors.M.fn_names)
            if na != nb:
                ctx.report('cache_changes_names', '%s: names afterwards differ: %s vs %s' % (what, str(na)[:240], str(nb)[:240]),
                           {'kind': 'cache_changes_names'})
        # failed sources are never cacheable
        if b[0] == 'exc' and 'ParserError' in b[1] and ('Syntax error' in b[2] or 'Illegal character' in b[2] or 'reserved' in b[2]):
            ctx.fault('bad_source')
            ctx.probe('failing_source')
            fault_seen = True
            key = op['src'] if op['op'] == 'parse' else op['src'].rstrip()
            if key in A.cache.d:
                ctx.report('failure_cached', '%s: a source that does not parse is present in the cache' % what, {'kind': 'failure_cached'})
        # cached trees are never altered, and never lie
        for tid, (k, tree, rep) in list(snapshots.items()):
            now = tree_snapshot(tree)
            ctx.stats['snapshots_compared'] += 1
            if now != rep:
                ctx.report('cached_tree_altered', '%s: the tree cached for %r changed: %s -> %s' % (what, k[:80], str(rep)[:200], str(now)[:200]),
                           {'kind': 'cached_tree_altered'})
        ctx.probe('cached_tree_snapshot_checked')
        for k, tree in list(A.cache.d.items()):
            if ('chk', k) not in used:
                used[('chk', k)] = True
                try:
                    want = canon.tree_digest(boot.twin_parser().parse(k))
                except Exception as e:
                    want = 'raises ' + type(e).__name__
                if canon.tree_digest(tree) != want:
                    ctx.report('cache_entry_wrong', '%s: cache[%r] holds another tree (%s) than an uncached parse of that key gives (%s)' % (
                        what, k[:80], canon.tree_digest(tree), want), {'kind': 'cache_entry_wrong'})
        if hit:
            ctx.probe('cache_hit')
            if fault_seen:
                ctx.probe('hit_after_fault')
                ctx.nontrivial = True
            if cfg.get('prewarm') and (op['src'] if op['op'] == 'parse' else op['src'].rstrip()) in [s.rstrip() for s in cfg.get('prewarm_sources', [])]:
                ctx.probe('prewarmed_hit')
        if op.get('near'):
            ctx.probe('near_duplicate_call')
            fault_seen = True
        pk = (op['pool'], op['op'])
        if op['op'] == 'eval':
            if used.get(pk) not in (None, op['space']):
                ctx.probe('same_source_other_names')
            used[pk] = op['space']
    for k in ('lru_evict', 'cache_evict', 'cache_drop_write', 'reentry'):
        if A.cache.stats[k]:
            ctx.fault(k, A.cache.stats[k])
            ctx.probe(k, A.cache.stats[k])


def simplify(case):
    w = case['world']
    if w['cache'].get('kind') != 'dict':
        yield dict(case, world=dict(w, cache={'kind': 'dict'}))
    for i, op in enumerate(case['ops']):
        if op.get('near'):
            src = case['pool'][op['pool']]
            yield dict(case, ops=case['ops'][:i] + [dict(op, src=src, near=None)] + case['ops'][i + 1:])


def sample(case):
    return {'cache': case['world']['cache'], 'ops': [{k: v for k, v in o.items() if k != 'entropy'} for o in case['ops'][:8]]}
