"""C03 - the 10000-element cap on lists and dicts cannot be circumvented (DESIGN.md section 5, C03).

Simulated: a history of element-adding and other operations on host containers that start at the boundary
(0, 1, 9998..10001 elements). The fault is the operation that must fail at the cap; the check is that it fails
atomically (ParserError, container unchanged - observed from the host side). In addition a monitor on every node
evaluation and a scan of everything reachable from names / result / kept objects enforce the global growth bound
B = max(10000, longest host-supplied list/dict/str, longest literal spelled in any source so far).
"""
from .. import canon, gen, lang, history, monitors
from ..rng import Streams, weighted
from ..world import real_eval, compare_with_model

ID = 'C03'
LEVEL = 'exploration'
TIERS = {'quick': 720, 'thorough': 20000}
WALL_CAP = 180
CAP = 10000
RULE = ('seeded histories (4-16 single-statement evals) on one parser over host lists/dicts of 0, 1, 9998, 9999, '
        '10000, 10001 elements plus small program-grown ones: push / insert / index assignment (existing and new key) '
        '/ compound index assignment / pop / del / remove, and every container-returning operator and builtin (+, +=, '
        'slices, sorted, reversed, map, filter, enumerate, keys/values/items, split, match_all, list(...), reduce with '
        'a concatenating lambda, doubling chains x += x and s += s then split). Oracle: (i) at >= 10000 elements each '
        'adder raises ParserError and the container equals its pre-call state (reference model, host-side view); (ii) '
        'below the cap the model\'s behaviour (off-by-one visible at 9999/10000); (iii) every list/dict returned by any '
        'node evaluation or reachable from names/result/kept objects has len <= B. non-trivial = an adder was refused '
        'at the cap and a later op was judged, or a growth chain ran; distinct by sha256 of the case')
ASSUMPTIONS = ['strings are not capped by the property; they enter the bound B only when the host supplied them',
               'known findings are keyed by the producing site, so a new unguarded site is still reported']
REAL = ['smartquery.*', 'regex (benign patterns)']
STUB = ['host (supplies boundary containers, observes them from outside)']
REACH_PROBES = ('not_yet_in_the_language', 'host_calls_stored_lambda', 'adder_refused_at_cap', 'adder_accepted_below_cap', 'refused_then_judged', 'len_9999_to_10000',
                'growth_chain', 'oversize_seen', 'dict_at_cap', 'list_at_cap', 'pop_then_push_at_boundary', 'unknown_builtin_sweep')

SIZES = [0, 1, 9998, 9999, 10000, 10001]


def _world(r):
    names = {}
    names['big'] = {'range': r.choice(SIZES[2:])}
    names['bigd'] = {'drange': r.choice(SIZES[2:])}
    if r.random() < 0.5:
        names['nest'] = [{'range': r.choice(SIZES[2:])}, {'drange': r.choice([1, 9999, 10000])}]
    names['x'] = [1]
    names['e'] = []
    names['st'] = r.choice(['a b', 'ab', 'a,b,c'])
    names['sm'] = {'m': [['a', 1]]}
    names['k3'] = 3             # a host int (not a Decimal literal)
    if r.random() < 0.3:
        names['dd'] = {'ddrange': r.choice([9999, 10000, 10000])}      # a host collections.defaultdict at the boundary
    names['hl'] = {'range': r.choice([101, 150])}
    names['gd'] = {'m': [['x', {'range': r.choice([9999, 10000])}], ['y', [1]]]}       # a dict of lists (groups), one of them at the cap
    return {'names': names, 'host_fns': []}


def _targets(model):
    out = []
    for nm in ('big', 'bigd', 'x', 'e', 'sm', 'y', 'dd', 'dd'):
        v = model.host.get(nm)
        if isinstance(v, (list, dict)):
            out.append((['name', nm], v))
    nest = model.host.get('nest')
    if isinstance(nest, list):
        for i, v in enumerate(nest[:2]):
            if isinstance(v, (list, dict)):
                out.append((['index', ['name', 'nest'], ['num', str(i)]], v))
    return out


def _gen_op(r, model):
    tg = _targets(model)
    te, obj = r.choice(tg)
    n = len(obj)
    is_list = isinstance(obj, list)
    k = weighted(r, [('add', 8), ('remove', 3), ('grow', 5), ('derive', 4), ('read', 1), ('hostcall', 1.2), ('newsyntax', 0.8), ('oddpos', 1.6)])
    if k == 'oddpos':
        # an adder given a position that is no position (non-finite, None, text, twenty digits): at the cap the refusal
        # comes first, below it the error is an ordinary failure - never growth
        lists = [(t_, o_) for t_, o_ in tg if isinstance(o_, list)]
        if lists:
            te2, obj2 = r.choice([x for x in lists if len(x[1]) >= CAP] or lists)
            inf = ['call', 'float', [['str', r.choice(['inf', 'nan', '-inf', 'Infinity'])]], 'plain']
            pos = r.choice([inf, inf, ['neg', inf], ['none'], ['str', 'x'], ['num', '9223372036854775808'], ['neg', ['num', '9223372036854775809']], ['num', '99999999999999999999']])
            v = r.choice([['num', '7'], ['list', [['num', '1']]]])
            how = r.choice(['set', 'insert', 'setop'])
            if how == 'set':
                return ['setitem', te2, pos, v], 'setitem'
            if how == 'insert':
                return ['call', 'insert', [te2, pos, v], gen.sugar(r, 3)], 'insert'
            return ['setitemop', te2, pos, '+=', ['num', '1']], 'setitemop'
        k = 'add'
    if k == 'newsyntax' and te[0] == 'name':
        # statement forms that are not in the language today (a syntax error changes nothing); should one ever be
        # added it must respect the cap like every other adder
        s = r.choice(['%s[0:0] = [1, 2, 3]', '%s[:] = %s + [1, 2, 3]', '%s[1:2] = [7, 7, 7, 7]', '%s.extend([1, 2, 3])', 'extend(%s, [1, 2, 3])',
                      '%s[len(%s):] = [1, 2, 3]', 'update(%s, {"n1": 1, "n2": 2, "n3": 3})', 'append(%s, 1, 2, 3)'])
        return ['src', s.replace('%s', te[1])], 'newsyntax'
    if k == 'hostcall':
        if getattr(model.host.get('adder'), '_sim_kind', '') == 'lambda' and r.random() < 0.7:
            return ['hostcall', 'adder', [['num', '5']]], 'hostcall'
        how = r.choice(['push', 'insert', 'set'])
        body = {'push': ['call', 'push', [te, ['name', 'v']], 'plain'],
                'insert': ['call', 'insert', [te, ['num', '0'], ['name', 'v']], 'plain'],
                'set': ['call', '__setitem__', [te, ['str', 'hk'] if not is_list else ['num', '0'], ['name', 'v']], 'plain']}[how]
        return ['assign', 'adder', ['lambda', ['v'], body]], 'define'
    val = r.choice([['num', '7'], ['str', 'v'], ['list', [['num', '1']]], ['name', 'x']])
    if k == 'add' and r.random() < 0.15:
        # the same adders reached under another name or as a value: still adders
        a = r.choice(['alias_push', 'alias_set', 'reduce_push', 'alias_insert'])
        if a == 'alias_push' and is_list:
            return ['block', [['assign', 'pp', ['name', 'push']], ['call', 'pp', [te, val], r.choice(['plain', 'method', 'pipe'])]]], 'push'
        if a == 'alias_insert' and is_list:
            return ['block', [['assign', 'ii', ['name', 'insert']], ['call', 'ii', [te, ['num', '0'], val], 'plain']]], 'insert'
        if a == 'alias_set':
            key = ['num', '0'] if is_list else ['str', 'aliased%d' % r.randint(0, 2)]
            return ['block', [['assign', 'ss', ['name', '__setitem__']], ['call', 'ss', [te, key, val], 'plain']]], 'setitem'
        if is_list:
            return ['call', 'reduce', [['list', [te, val]], ['name', 'push']], 'plain'], 'push'
    if k == 'add':
        if is_list:
            a = weighted(r, [('push', 4), ('insert', 3), ('set', 2), ('setop', 2), ('setnew', 1), ('pushmany', 1), ('insertmany', 0.5)])
            if a == 'pushmany':
                # not in the language: an adder given several values must fail, never add them all behind one check
                return ['call', 'push', [te, val, val] + ([val] if r.random() < 0.5 else []), gen.sugar(r, 3)], 'push'
            if a == 'insertmany':
                return ['call', 'insert', [te, ['num', '0'], val, val], gen.sugar(r, 4)], 'insert'
            if a == 'push':
                return ['call', 'push', [te, val], gen.sugar(r, 2)], 'push'
            if a == 'insert':
                idx = ['num', str(r.choice([0, n // 2, n]))]
                if r.random() < 0.15:
                    inf = ['call', 'float', [['str', r.choice(['inf', 'Infinity', 'nan'])]], 'plain']
                    idx = r.choice([inf, ['neg', inf], ['neg', ['num', '99999999999999999999']], ['none'], ['none']])
                return ['call', 'insert', [te, idx, val], gen.sugar(r, 3)], 'insert'
            if a == 'set':
                idx = ['num', str(r.randrange(n) if n else 0)]
                if r.random() < 0.15:
                    inf = ['call', 'float', [['str', r.choice(['inf', 'nan', '-inf'])]], 'plain']
                    idx = r.choice([inf, ['none'], ['neg', ['num', '99999999999999999999']], ['str', 'x']])
                return ['setitem', te, idx, val], 'setitem'
            if a == 'setnew':
                return ['setitem', te, ['num', str(n)], val], 'setitem'
            return ['setitemop', te, ['num', str(r.randrange(n) if n else 0)], r.choice(['+=', '-=', '*=']), ['num', '1']], 'setitemop'
        a = weighted(r, [('setnew', 5), ('set', 2), ('setop', 2)])
        if a == 'setnew':
            return ['setitem', te, ['str', 'new%d' % r.randint(0, 3)], val], 'setitem'
        key = ['str', str(r.randrange(n))] if n and 'range' in str(type(obj)) or (n and '0' in obj) else ['str', 'a']
        if a == 'set':
            return ['setitem', te, key, val], 'setitem'
        if r.random() < 0.5:
            key = ['str', 'absent%d' % r.randint(0, 3)]      # compound assignment to a key that is not there
        return ['setitemop', te, key, r.choice(['+=', '-=']), ['num', '1']], 'setitemop'
    if k == 'remove':
        if is_list:
            a = r.choice(['pop', 'popi', 'del', 'remove'])
            if a == 'pop':
                return ['call', 'pop', [te], gen.sugar(r, 1)], 'pop'
            if a == 'popi':
                return ['call', 'pop', [te, ['num', '0']], gen.sugar(r, 2)], 'pop'
            if a == 'del':
                return ['del', te, ['num', str(r.choice([0, max(0, n - 1)]))]], 'del'
            return ['call', 'remove', [te, ['num', str(r.choice([0, 5, 9999]))]], gen.sugar(r, 2)], 'remove'
        key = ['str', str(r.randrange(n))] if n > 5 else ['str', 'a']
        return (['del', te, key], 'del') if r.random() < 0.6 else (['call', 'remove', [te, key], gen.sugar(r, 2)], 'remove')
    if k == 'grow':
        g = weighted(r, [('xdouble', 5), ('xplus', 2), ('sdouble', 4), ('split', 3), ('mapstr', 1.5), ('matchall', 1.5),
                         ('reduce', 1.5), ('bigplus', 2), ('bigshort', 2), ('nestop', 1), ('xmul', 2.5), ('litstr', 1.5)])
        if g == 'litstr':
            # what the source spells out literally is part of the bound: a long literal is exactly as long as its
            # spelling (characters with longer compatibility / canonical decompositions, ligatures, combining marks)
            ch = r.choice(['x', '\u00e9', 'e\u0301', '\ufdfa', '\ufb03', '\u3300', '\u2126', '\u00a0', '\u1e9e', '\u0132'])
            lit = ['str', ch * r.choice([30, 700, 1100])]
            how = r.choice(['map', 'split', 'len', 'list'])
            if how == 'map':
                return ['assign', 'y', ['call', 'map', [lit, ['lambda', ['c'], ['name', 'c']]], gen.sugar(r, 2)]], 'grow'
            if how == 'split':
                return ['assign', 'y', ['call', 'split', [lit, ['str', '']], 'plain']], 'grow'
            if how == 'list':
                return ['assign', 'y', ['list', [lit, ['call', 'len', [lit], 'plain']]]], 'grow'
            return ['assign', 'y', ['call', 'len', [lit], gen.sugar(r, 1)]], 'grow'
        if g == 'xdouble':
            if r.random() < 0.4:
                return ['block', [['short', 'x', '+=', ['name', 'x']]] * 4], 'grow'
            return ['short', 'x', '+=', ['name', 'x']], 'grow'
        if g == 'xplus':
            return ['assign', 'x', ['bin', '+', ['name', 'x'], ['name', 'x']]], 'grow'
        if g == 'sdouble':
            cur = model.host.get('st')
            if isinstance(cur, str) and len(cur) < 100 and r.random() < 0.5:
                # a long program-built string (the host supplied a few characters only)
                return ['block', [['short', 'st', '+=', ['name', 'st']]] * r.randint(12, 14)], 'grow'
            if r.random() < 0.6:
                return ['block', [['short', 'st', '+=', ['name', 'st']]] * 5], 'grow'
            return ['short', 'st', '+=', ['name', 'st']], 'grow'
        if g == 'split':
            return ['assign', 'y', ['call', 'split', [['name', 'st'], ['str', r.choice([' ', 'a', ','])]], gen.sugar(r, 2)]], 'grow'
        if g == 'mapstr':
            return ['assign', 'y', ['call', 'map', [['name', 'st'], ['lambda', ['c'], ['name', 'c']]], gen.sugar(r, 2)]], 'grow'
        if g == 'matchall':
            return ['assign', 'y', ['call', 'match_all', [['name', 'st'], ['str', r.choice(['.', 'a', '[a-z]'])]], gen.sugar(r, 2)]], 'grow'
        if g == 'reduce':
            return ['assign', 'y', ['call', 'reduce', [['list', [['name', 'x'], ['name', 'x'], ['name', 'x']]],
                                                        ['lambda', ['p', 'q'], ['bin', '+', ['name', 'p'], ['name', 'q']]]], gen.sugar(r, 2)]], 'grow'
        if g == 'bigplus':
            return ['assign', 'y', ['bin', '+', ['name', 'big'], r.choice([['name', 'x'], ['list', [['num', '1']]], ['name', 'big']])]], 'grow'
        if g == 'bigshort':
            return ['short', 'big', '+=', r.choice([['name', 'x'], ['list', [['num', '1']]]])], 'grow'
        if g == 'xmul':
            # multiplication never repeats a list - whatever the type of the multiplier
            tgt = r.choice(['x', 'hl', 'hl'])
            mult = r.choice([['num', '3'], ['name', 'k3'], ['call', 'len', [['name', tgt]], 'plain'], ['call', 'index_of', [['list', [['num', '7'], ['num', '8'], ['num', '9']]], ['num', '9']], 'plain']])
            if r.random() < 0.3:
                return ['setitemop', ['list', [['name', tgt]]], ['num', '0'], '*=', mult], 'grow'
            return ['short', tgt, '*=', mult], 'grow'
        return ['setitemop', ['name', 'nest'], ['num', '0'], '+=', ['list', [['num', '1'], ['num', '2']]]], 'grow'
    if k == 'derive':
        src = te
        d = weighted(r, [('sorted', 1), ('reversed', 1), ('slice', 2), ('map', 1), ('filter', 1), ('enumerate', 1),
                         ('kvi', 2), ('list', 1), ('concat_small', 1)])
        if d in ('sorted', 'reversed', 'enumerate') and is_list:
            return ['assign', 'y', ['call', d, [src], gen.sugar(r, 1)]], 'derive'
        if d == 'slice' and is_list:
            return ['assign', 'y', ['slice', src, r.choice([':', 'a:', '::s']), ['num', '1'], None]], 'derive'
        if d == 'map' and is_list:
            return ['assign', 'y', ['call', 'map', [src, ['lambda', ['v'], ['name', 'v']]], gen.sugar(r, 2)]], 'derive'
        if d == 'filter' and is_list:
            return ['assign', 'y', ['call', 'filter', [src, ['lambda', ['v'], ['bool', True]]], gen.sugar(r, 2)]], 'derive'
        if d == 'kvi' and not is_list:
            return ['assign', 'y', ['call', r.choice(['keys', 'values', 'items']), [src], gen.sugar(r, 1)]], 'derive'
        if d == 'list':
            return ['assign', 'y', ['call', 'list', [src, src], 'plain']], 'derive'
        return ['assign', 'y', ['bin', '+', ['name', 'x'], ['list', [['num', '1']]]]], 'derive'
    return ['call', 'len', [te], gen.sugar(r, 1)], 'read'


def generate(seed, tier):
    S = Streams(seed)
    rc, ro = S['config'], S['ops']
    world = _world(rc)
    model = history.model_only(world)
    ops = []
    hammer = rc.random() < 0.12
    for _ in range(rc.randint(4, 16) if not hammer else 14):
        if hammer and len(ops) >= 2:
            # the same refusal again and again (nothing that counts refusals may ever let one through)
            tname = 'big' if isinstance(model.host.get('big'), list) else 'x'
            how = ro.choice(['push', 'insert', 'set'])
            prog = {'push': ['call', 'push', [['name', tname], ['num', '7']], gen.sugar(ro, 2)],
                    'insert': ['call', 'insert', [['name', tname], ['num', '0'], ['num', '7']], 'plain'],
                    'set': ['setitem', ['name', 'bigd'], ['str', 'hk%d' % len(ops)], ['num', '7']]}[how]
            ops.append({'op': 'eval', 'prog': prog, 'style': gen.style(S['render']), 'kind': {'push': 'push', 'insert': 'insert', 'set': 'setitem'}[how]})
            if model.run(prog)[0] == 'unspec':
                break
            continue
        if ro.random() < 0.07:
            # a table entry the reference semantics do not know (one that may be added some day): whatever it is, it must
            # not leave a container above the bound behind - called with boundary containers in several shapes
            ops.append({'op': 'unknown_builtin', 'pick': ro.randrange(1000), 'shape': ro.randrange(7), 'kind': 'unknown_builtin'})
            continue
        if ro.random() < 0.04:
            ops.append({'op': 'eval', 'prog': ['call', 'push', [['name', 'gd'], ['str', ro.choice(['x', 'y', 'z'])], ['num', '1']], gen.sugar(ro, 3)],
                        'style': gen.style(S['render']), 'kind': 'push'})
            model.run(ops[-1]['prog'])
            continue
        prog, kind = _gen_op(ro, model)
        if kind == 'newsyntax':
            ops.append({'op': 'src', 'src': prog[1], 'kind': kind})
            continue
        if kind == 'hostcall':
            ops.append({'op': 'hostcall', 'fn': prog[1], 'kind': kind})
            try:
                model.call_value(model.host[prog[1]], [5])
            except Exception:
                pass
            continue
        ops.append({'op': 'eval', 'prog': prog, 'style': gen.style(S['render']), 'kind': kind})
        out = model.run(prog)
        if out[0] == 'unspec':
            break
        # keep doubling chains bounded: a *violating* tree must still terminate quickly
        x = model.host.get('x')
        st = model.host.get('st')
        if (isinstance(x, list) and len(x) > 40000) or (isinstance(st, str) and len(st) > 400000):
            break
    return {'world': world, 'ops': ops}


def _longest_host(names):
    m = 0
    for v in names.values():
        for o in canon.reachable_mutables(v).values():
            m = max(m, len(o))
        if isinstance(v, str):
            m = max(m, len(v))
    return m


def _site(node):
    n = type(node).__name__
    if n == 'CallOp':
        return 'call:' + str(getattr(node, 'name', '?'))
    if n in ('BinOp', 'ShortOp', 'UnaryOp'):
        return '%s:%s' % (n, getattr(node, 'op', '?'))
    return n


def execute(case, ctx):
    W = history.World(case['world'])
    B = max(CAP, _longest_host(W.names))
    seen_big = {}
    refused = False

    biggest = [B]      # once a bypass happened, same-length derivatives of the oversized container are consequences

    def hook(node, v, rec):
        if isinstance(v, (list, dict)) and len(v) > biggest[0]:
            # a read of an existing (already grown) container is not a producer: only fresh objects are flagged here,
            # in-place growth of existing ones is found by the scan after the call and attributed to the statement
            existing = {}
            for o in W.names.values():
                canon.reachable_mutables(o, existing)
            if id(v) in existing:
                return
            biggest[0] = len(v)
            rec.findings.append((_site(node), len(v)))

    for step, op in enumerate(case['ops']):
        ctx.step = step
        if op['op'] == 'src':
            from ..world import real_eval as _re
            before = canon.canon(W.names, monitors.M.fn_names)
            rout = _re(W.parser, op['src'], W.names, budget=10 ** 6)
            ctx.probe('not_yet_in_the_language')
            ctx.event(step, 'src', rout.kind)
            big_now = [len(o) for v in W.names.values() for o in canon.reachable_mutables(v).values() if len(o) > biggest[0]]
            if big_now:
                ctx.report('cap_bypass', 'step %d %r: after the call a container of %d elements is reachable from names (bound %d)' % (
                    step, op['src'], max(big_now), B), {'kind': 'cap_bypass', 'site': 'statement:' + op['src'].split('(')[0].split('[')[0][:12]})
            if rout.kind != 'value' and canon.canon(W.names, monitors.M.fn_names) != before:
                ctx.report('failed_statement_changed_state', 'step %d %r failed (%s) but changed the names mapping' % (step, op['src'], rout.brief()[:2]),
                           {'kind': 'failed_statement_changed_state'})
            if rout.kind == 'value':
                break       # a form the reference model does not know was accepted: the model cannot follow from here
            continue
        if op['op'] == 'unknown_builtin':
            from ..model import MODELLED_BUILTINS, UNMODELLED_BUILTINS
            live = monitors.M.functions.FUNCTIONS
            unknown = sorted(n for n in live if n not in MODELLED_BUILTINS and n not in UNMODELLED_BUILTINS)
            ctx.probe('unknown_builtin_sweep')
            if not unknown:
                continue
            fn = unknown[op['pick'] % len(unknown)]
            if 'bigi' not in W.names:
                W.names['bigi'] = {i: i for i in range(CAP)}          # a host dict with int keys, at the cap
                W.names['smalli'] = {0: 1, 1: 2, 2: 3}                # ... and a small one whose keys are among them
            grow = '(x => ((len(big) < 10000 and push(big, 0)) or x))'       # a key function that fills the list up to the cap
            src = ['%s(big, 0)', '%s(big, 0, ' + grow + ')', '%s(bigd, {"n1": 1, "n2": 2, "n3": 3})', '%s(bigi, smalli)', '%s(big, 1, 2, 3)',
                   '%s(gd, "x", 1)', '%s(bigd, "nk", 1)'][op['shape'] % 7] % fn
            before = max([len(o) for v in W.names.values() for o in canon.reachable_mutables(v).values()] + [0])
            rout = real_eval(W.parser, src, W.names, budget=10 ** 6)
            ctx.event(step, 'unknown_builtin', fn, rout.kind)
            roots = list(W.names.values()) + ([rout.value] if rout.kind == 'value' else [])
            big_now = [len(o) for v in roots for o in canon.reachable_mutables(v).values() if len(o) > max(biggest[0], before, B)]
            if big_now:
                ctx.report('cap_bypass', 'step %d %r: after the call a container of %d elements is reachable from names/result (bound %d)' % (
                    step, src, max(big_now), B), {'kind': 'cap_bypass', 'site': 'call:' + fn})
            break       # the reference model cannot follow what an unknown builtin did
        if op['op'] == 'hostcall':
            # the host itself invokes a lambda a program left in names, outside any eval call: the program's code
            # still must not grow a container past the cap
            from ..model import MErr, Unspec
            from ..world import classify
            f = W.names.get(op['fn'])
            mf = W.model.host.get(op['fn'])
            if not callable(f) or mf is None:
                continue
            try:
                f(5)
                rk = 'value'
            except BaseException as e:
                if type(e).__name__ in ('RunTimeout', 'RunTooBig'):
                    raise
                rk = classify(e)
            W.model.scopes = [W.model.builtins, W.model.host]
            try:
                W.model.call_value(mf, [5])
                mk = 'value'
            except MErr as e:
                mk = e.kind
            except Unspec:
                break
            ctx.probe('host_calls_stored_lambda')
            ctx.event(step, 'hostcall', rk, mk)
            if mk == 'lang' and rk != 'lang':
                ctx.report('missing_error' if rk == 'value' else 'wrong_error_class', 'step %d: the host called the stored lambda %s(5) outside eval: '
                           'the model demands a ParserError (size cap), the system outcome was %s' % (step, op['fn'], rk), {'kind': 'cap_not_enforced_outside_eval'})
            a = canon.canon(W.model.host)
            b = canon.canon(W.names, monitors.M.fn_names)
            if a != b:
                ctx.report('names_mismatch', 'step %d: after the host called %s(5) the containers differ from the model' % (step, op['fn']), {'kind': 'names_mismatch'})
            continue
        src = lang.render(op['prog'], op.get('style', 0))
        rec = monitors.Rec()
        rec.value_hooks = (hook,)
        rec.track_kinds = False
        tgt_len = None
        prog = op['prog']
        rout = real_eval(W.parser, src, W.names, budget=10 ** 7, rec=rec)
        mout = W.model.run(prog)
        judged = compare_with_model(ctx, mout, rout, W.model.host, W.names, 'step %d %r' % (step, src[:160]))
        ctx.op_kind(op.get('kind', '?'))
        # (iii) global bound: node-level findings first
        ctx.probe('oversize_seen', len(rec.findings))
        for site, n in rec.findings:
            ctx.stats['oversize_site:' + site] += 1
            ctx.report('cap_bypass', 'step %d %r: a node evaluation (%s) returned a container of %d elements (bound %d)' % (
                step, src[:160], site, n, B), {'kind': 'cap_bypass', 'site': site})
        # then everything reachable from names / result
        roots = list(W.names.values())
        if rout.kind == 'value':
            roots.append(rout.value)
        new_big = []
        for rt in roots:
            for o in canon.reachable_mutables(rt).values():
                if len(o) > biggest[0]:
                    biggest[0] = len(o)
                    new_big.append(o)
        if new_big:
            st = prog[0]
            if st == 'block':
                st = prog[1][0][0]
                prog = prog[1][0]
            if st == 'short':
                site = 'ShortOp:' + prog[2]
            elif st == 'setitemop':
                site = '__setitem_with_op__:' + prog[3]
            elif st == 'assign' and rec.findings:
                site = None          # the deep copy of an oversized value reported above
            else:
                site = 'statement:' + st + (':' + prog[1] if st == 'call' else '')
            if site:
                ctx.probe('oversize_seen')
                ctx.stats['oversize_site:' + site] += 1
                ctx.report('cap_bypass', 'step %d %r: after the call a container of %d elements is reachable from names/result (bound %d, site %s)' % (
                    step, src[:160], len(new_big[0]), B, site), {'kind': 'cap_bypass', 'site': site})
        if not judged:
            break
        kind = op.get('kind')
        if kind in ('push', 'insert', 'setitem', 'setitemop'):
            if mout[0] == 'lang' and 'cap' in str(mout[1]):
                ctx.fault('cap_boundary')
                ctx.probe('adder_refused_at_cap')
                refused = True
                t = _resolve(W.model.host, prog)
                ctx.probe('dict_at_cap' if isinstance(t, dict) else 'list_at_cap')
            elif mout[0] == 'value':
                ctx.probe('adder_accepted_below_cap')
                t = _resolve(W.model.host, prog)
                if t is not None and len(t) == CAP:
                    ctx.probe('len_9999_to_10000')
        elif refused and mout[0] == 'value':
            ctx.probe('refused_then_judged')
            ctx.nontrivial = True
            if kind == 'pop':
                ctx.probe('pop_then_push_at_boundary')
        if kind == 'grow':
            ctx.probe('growth_chain')
            ctx.nontrivial = True
        ctx.event(step, kind, rout.kind, mout[0])
        ctx.state(canon.digest([[k, len(v) if hasattr(v, '__len__') else 0] for k, v in sorted(W.names.items())]))


def _resolve(host, prog):
    try:
        te = prog[2][0] if prog[0] == 'call' else prog[1]
        if te[0] == 'name':
            return host[te[1]]
        if te[0] == 'index':
            return host[te[1][1]][int(te[2][1])]
    except Exception:
        return None


def simplify(case):
    names = case['world']['names']
    for k in list(names):
        if k not in ('x', 'st'):
            nn = {a: b for a, b in names.items() if a != k}
            yield dict(case, world=dict(case['world'], names=nn))


def sample(case):
    return {'world': case['world'], 'ops': [lang.render(o['prog'], 0) if 'prog' in o else (o.get('src') or {'host_calls': o.get('fn')}) for o in case['ops']]}
