"""C16 - language-level failures are ParserErrors; nothing worse ever escapes (DESIGN.md section 5, C16).

Simulated: (i) one long-lived parser driven through a history of failing calls whose failure kind is injected by
construction (so the expected class is known without a second parser): premature end after every token the grammar
cannot end on, unbalanced brackets, stray tokens, illegal characters, unterminated strings, reserved words, undefined
variables (in expressions and compound assignments) and functions (call / method / pipe), missing keys and indices,
pop on empty, compound index assignment on a missing key, the size cap, the op budget - at many syntactic positions
and in lambda bodies driven by higher-order builtins; plus arbitrary Unicode strings. (ii) the REPL as a whole
program: a scripted prompt session feeds such lines over one persistent names mapping; the loop must survive every
line and return 0 only on the injected KeyboardInterrupt.
"""
import contextlib
import io

from .. import boot, canon, gen, lang, badsrc, monitors, history
from ..proggen import ProgGen
from ..rng import Streams, weighted, RealRandom
from ..world import real_eval, classify

ID = 'C16'
LEVEL = 'exploration'
TIERS = {'quick': 12000, 'thorough': 800000}
RULE = ('seeded histories of 6-30 calls of parse / eval / list_names on one SqParser, each failing in a way injected by '
        'construction (lexical, syntax incl. premature end at every non-final token kind, reserved word, undefined '
        'variable / function at 15 syntactic positions, missing key / index, pop on empty, compound index assignment on a '
        'missing key, size cap, op budget) or fed arbitrary Unicode; 6% of the runs are scripted REPL sessions (prompt '
        'session stubbed, stdout captured, KeyboardInterrupt injected at the end). Oracle: (a) nothing that is not an '
        'Exception ever escapes; (b) a failure of a listed kind is a ParserError (budget: its subclass); (c) the REPL '
        'survives every line and returns 0. non-trivial = at least 3 failures of different kinds were judged on the same '
        'parser; distinct by sha256 of the case')
ASSUMPTIONS = ['(b) is a statement over inputs: the simulator contributes the by-construction classification, the history on one parser and the REPL, not a proof over all strings',
               'a stray token or a blind truncation may leave a valid program: such texts are only required not to raise anything but ParserError from parse()']
REAL = ['smartquery.* (lexer, PLY parser, evaluator, builtins, repl loop)']
STUB = ['prompt_toolkit.PromptSession (scripted line source)', 'stdout (captured)']
REACH_PROBES = ('opener', 'operator_newline', 'premature_end', 'unbalanced_open', 'unbalanced_close', 'illegal_char', 'unterminated_string', 'reserved_word',
                'undefined_variable', 'undefined_variable_compound', 'undefined_function', 'missing_key', 'index_out_of_range',
                'pop_empty', 'compound_index_missing', 'size_cap', 'op_budget', 'unicode_soup', 'repl_session', 'inside_lambda',
                'list_names_lexical')

UNI = ['☃', '\u0000', 'é', '中', '😀', '​', ' ', '﻿', '%', '"', "'", '\\', '#', '\n', '\r', '\t', ';', '(', '{', '[', '=>', '**',
       '\U0001d4b3', '\ud800', '\udfff', 'ℵ', '"\\U00110000"', '"\\uD800"', '"\\U80000000"', '"\\x41\\077"', '"\\N{DASH}"',
       "'\\UFFFFFFFF'", '"\\u12"', 'r"\\U00110000"', '١', '²', '½', '＿', 'ǅ', '\x85', '\x1c', '`', '$']


def _runtime_fail(r):
    """(kind, program source, budget) of a program that fails at run time in a known, listed way."""
    k = weighted(r, [('undefined_variable', 5), ('undefined_variable_compound', 3), ('undefined_function', 4), ('missing_key', 3),
                     ('index_out_of_range', 3), ('pop_empty', 2), ('compound_index_missing', 3), ('size_cap', 1), ('op_budget', 2)])
    u = r.choice(['u', 'undefined_name', '%no such%', 'x9'])
    budget = None
    if k == 'undefined_variable':
        e = r.choice(['{u}', '1 + {u}', '{u} + 1', 'len([{u}])', '[1, {u}]', '{{"a": {u}}}', '{{{u}: 1}}', 'l[{u}]', '({u} if True else 1)',
                      '(1 if {u} else 2)', 'not {u}', '-{u}', 'x = {u}', 'l[0] = {u}', 'd["k"] = {u}', '{u}.len()', '{u} | len', 'l[{u}:]', 'del l[{u}]',
                      'map([1, 2], v => {u})', 'filter([1], v => v == {u})', 'reduce([1, 2], (a, b) => a + {u})', 'sorted([2, 1], v => {u})',
                      'f = v => {u} + v; f(1)', 'True and {u}', 'False or {u}', 'x += {u}', 'd["a"] += {u}', 'push(l, {u})'])
        src = e.format(u=u)
        if not u.startswith('%') and r.random() < 0.25:
            # the undefined name was a lambda parameter a moment ago (its binding vanished when the call returned)
            src = r.choice(['g9 = {u} => {u} + 1; g9(1); ', 'map([1, 2], {u} => {u}); ', 'g9 = ({u}, w9) => w9\ng9(1, 2)\n']).format(u=u) + u
    elif k == 'undefined_variable_compound':
        src = r.choice(['{u} += 1', '{u} -= 1', '{u} *= 2', '{u} /= 2', 'x = 1; {u} += x', 'map([1], v => 1); {u} += 1']).format(u=u)
    elif k == 'undefined_function':
        fn = r.choice(['nofn', 'undefined_fn', 'Len', 'len2'])
        src = r.choice(['{f}(1)', '{f}()', '1 | {f}', '(1).{f}()', 'l.{f}(2)', 'l | {f}(2)', 'x = {f}(l)', '[{f}(1)]', 'map(l, v => {f}(v))',
                        '1 + {f}(2)', 'len({f}(1))', 'd["k"] = {f}()']).format(f=fn)
    elif k == 'missing_key':
        src = r.choice(['hk20["zz"]', 'hk20[99]', 'x = hk20["b"]', 'hk["zz"]', 'hk[7]', 'dict(enumerate(l))["zz"]', 'dict([[1, "a"]])[5]', 'mp["zz"]', 'cm["zz"]', 'ud["zz"]', 'x = ud[5]', 'd["zz"]', 'd[5]', 'd[None]', 'x = d["zz"]', 'd["a"]["zz"]', 'len(d["zz"])', 'map(l, v => d[v])', 'd[1.0]', '{}["a"]', '{"a": 1}["b"]'])
    elif k == 'index_out_of_range':
        src = r.choice(['tp[5]', 'tp[-3]', 'l[9]', 'l[-9]', 'l[3]', 'x = l[99]', '[][0]', 's[99]', 'l[0][5]' if False else 'n[0][5]', 'map([7], v => l[v])', 'l[2.0 + 1]', '[1, 2][2]',
                        'l[10 ** 5000]', 's[0 - 10 ** 4400]', 'l[hugei]', 'tp[10 ** 4999]'])
    elif k == 'pop_empty':
        src = r.choice(['pop(e)', 'e.pop()', 'e | pop', 'pop([])', 'pop(l, 99)', 'l.pop(5)', 'x = pop(e)', 'pop(l, -9)',
                        'pop(e, "0")', 'l.pop("9")', 'pop(l, fz)', 'pop(e, fz)', 'pop(l, "-9")', 'pop(e, True)', 'l.pop(9.0)'])
    elif k == 'compound_index_missing':
        src = r.choice(['d["zz"] += 1', 'd["zz"] -= 1', 'd["zz"] *= 2', 'l[9] += 1', 'l[-9] /= 2', 'd["a"]["zz"] += 1', 'n[0][7] *= 2', '{}["k"] += 1'])
    elif k == 'size_cap':
        src = r.choice(['push(big, 1)', 'big.push(1)', 'insert(big, 0, 1)', 'bigd["new"] = 1', 'big | push(2)'])
    else:
        src = r.choice(['map(l, v => v + 1)', 'x = 1; y = 2; z = x + y; [x, y, z]', 'f = n => (0 if n <= 0 else f(n - 1)); f(50)', '1 + 2 + 3 + 4 + 5'])
        budget = r.randint(1, 6)
        if r.random() < 0.08:
            # a very wide expression: the budget runs out near its root (whatever the error says about the node, it says it
            # without walking thousands of levels)
            src = '1' + ' + 1' * 3500
            budget = r.randint(2, 5)
        elif r.random() < 0.3:
            # every element goes through a host function that evaluates on the SAME parser with a budget of its own:
            # the nested evaluations are separate calls, the outer budget still runs out
            src = r.choice(['l30 | map(p => taxed(p))', 'map(l30, p => taxed(p) + 1)', 'l30 | filter(p => taxed(p) > 0)'])
            budget = r.choice([20, 40, 60])
    if r.random() < 0.4 and k != 'op_budget':
        # earlier statements of the failing program bind names that OTHER calls expect to be undefined
        other = r.choice([n for n in ['u', 'undefined_name', 'x9', 'nofn', 'len2'] if n != u and n not in src] or ['zz9'])
        src = r.choice(['x = 1\n', 'y = [1, 2]; ', '# note\n', 'l2 = l + [4]\n', '%s = 5\n' % other, '%s = v => v; ' % other]) + src
    return k, src, budget


def _unicode_soup(r):
    n = r.randint(1, 12)
    parts = []
    for _ in range(n):
        x = r.random()
        if x < 0.5:
            parts.append(r.choice(UNI))
        elif x < 0.7:
            parts.append(chr(r.choice([r.randrange(0x20, 0x7f), r.randrange(0xa0, 0x2000), r.randrange(0x2000, 0xd7ff), r.randrange(0xe000, 0xffff),
                                       r.randrange(0x10000, 0x10ffff)])))
        else:
            parts.append(r.choice(['x', '1', ' ', 'len', 'a.b', '1.5', 'and', '"s"', 'r"', '%a']))
    return ''.join(parts)


def generate(seed, tier):
    S = Streams(seed)
    rc, ro, rf = S['config'], S['ops'], S['faults']
    repl = rc.random() < 0.06
    ops = []
    env = {'l': 'list', 'd': 'dict', 's': 'str', 'x': 'num'}
    for _ in range(rc.randint(6, 30)):
        if rf.random() < 0.08:
            ops.append(dict(history.noise_op(rf), kind_='noise'))
        k = weighted(ro, [('bad_source', 5), ('runtime', 6), ('unicode', 2), ('ok', 1.5)])
        if k == 'bad_source':
            g = ProgGen(ro, env, max_depth=ro.choice([1, 2, 3]), illtyped=0.0)
            src = lang.render(g.program(n_stmts=ro.choice([1, 2, 3])), gen.style(S['render']))
            bk, text = badsrc.make_bad(rf, src)
            ops.append({'op': ro.choice(['parse', 'parse', 'eval', 'list_names']), 'kind': bk, 'src': text})
        elif k == 'runtime':
            rk, src, budget = _runtime_fail(rf)
            ops.append({'op': 'eval', 'kind': rk, 'src': src, 'budget': budget})
        elif k == 'unicode':
            ops.append({'op': ro.choice(['parse', 'eval', 'list_names']), 'kind': 'unicode_soup', 'src': _unicode_soup(rf)})
        else:
            ops.append({'op': 'eval', 'kind': 'ok', 'src': ro.choice(['1 + 1', 'x = [1, 2]; x', 'len("abc")', '', '# c'])})
    # the same text submitted again (through parse or eval): a failure is a failure every time
    for _ in range(rc.randint(0, 4)):
        prev = ro.choice(ops)
        if prev['op'] != 'noise' and prev['kind'] != 'ok':
            again = dict(prev)
            if prev['op'] in ('parse', 'eval') and prev['kind'] not in LISTED_RUNTIME:
                again['op'] = ro.choice(['parse', 'eval'])
            ops.insert(ro.randrange(ops.index(prev) + 1, len(ops) + 1), again)
    return {'world': {'repl': repl, 'real_constructor': rc.random() < 0.1, 'cache': {'kind': 'dict'} if rc.random() < 0.4 else None}, 'ops': ops}


SURELY_INVALID = ('premature_end', 'unbalanced_open', 'unbalanced_close', 'illegal_char', 'unterminated_string', 'reserved_word', 'opener', 'operator_newline')
LISTED_RUNTIME = ('undefined_variable', 'undefined_variable_compound', 'undefined_function', 'missing_key', 'index_out_of_range',
                  'pop_empty', 'compound_index_missing', 'size_cap', 'op_budget')
LEXICAL = ('illegal_char', 'unterminated_string')


def _names(with_big=False):
    import collections
    import types
    n = {'l': [1, 2, 3], 'd': {'a': {'b': 1}, 'k': 2}, 's': 'abc', 'x': 5, 'e': [], 'n': [[1, 2], [3]],
         'mp': types.MappingProxyType({'a': 1}), 'cm': collections.ChainMap({'a': 1}, {'b': 2}), 'ud': collections.UserDict({'a': 1}),
         'tp': (1, 2), 'hk': {1: 10, 2.5: 'x', None: 0, 'a': 1}}
    n['l30'] = list(range(30))
    n['fz'] = 9.0
    n['hk20'] = dict([(i, i) for i in range(18)] + [('a', 1), ((1, 2), 3)])
    n['hugei'] = 10 ** 5000
    if with_big:
        n['big'] = list(range(10000))
        n['bigd'] = {str(i): i for i in range(10000)}
    return n


def execute(case, ctx):
    from smartquery.exceptions import ParserError, OpsExecutionLimitExceededError
    if case['world'].get('repl'):
        return _repl_session(case, ctx)
    from ..seams import make_cache
    parser = boot.fresh_parser(make_cache(case['world'].get('cache')))
    kinds_judged = set()
    noise = {}
    for step, op in enumerate(case['ops']):
        ctx.step = step
        if op['op'] == 'noise':
            history.do_noise(parser, op, noise, ctx)
            continue
        ctx.op_kind(op['op'] + ':' + op['kind'])
        src = op['src']
        exc = None
        try:
            if op['op'] == 'parse':
                parser.parse(src)
            elif op['op'] == 'list_names':
                list(parser.list_names(src))
            else:
                kw = {'max_ops_evaluated': op['budget']} if op.get('budget') else {'max_ops_evaluated': 100000}
                # every call gets its own fresh names mapping: nothing an earlier call bound or mutated may be visible
                nm = _names(with_big=op['kind'] == 'size_cap')
                if 'taxed' in src:
                    def taxed(v, _p=parser):
                        return _p.eval('v * rate', {'v': v, 'rate': 2}, max_ops_evaluated=20)
                    nm['taxed'] = taxed
                    ctx.fault('reentry')
                parser.eval(src, nm, **kw)
        except BaseException as e:          # classification below decides what it means
            if type(e).__name__ in ('RunTimeout', 'RunTooBig'):
                raise
            exc = e
        kind = op['kind']
        ctx.event(step, op['op'], kind, type(exc).__name__ if exc else None)
        ctx.state(canon.digest([op['op'], kind, type(exc).__name__ if exc else None, getattr(getattr(parser, 'lex', None), 'paren_count', 0)]))
        what = 'step %d %s(%r) [injected failure: %s]' % (step, op['op'], src[:200], kind)
        if exc is not None and not isinstance(exc, Exception):
            ctx.report('non_exception_escaped', '%s: %r (%s) escaped' % (what, exc, type(exc).__name__), {'kind': 'non_exception_escaped'})
            continue
        if kind == 'ok':
            continue
        if kind == 'unicode_soup':
            ctx.probe('unicode_soup')
            if exc is not None and op['op'] in ('parse', 'list_names') and not isinstance(exc, ParserError):
                ctx.report('wrong_error_class', '%s raised %s: %s (only lexical / syntax errors can arise here)' % (
                    what, type(exc).__name__, canon.norm_msg(str(exc))[:160]), {'kind': 'wrong_error_class', 'failure': 'unicode_soup'})
            continue
        if kind in SURELY_INVALID or kind in ('stray_token', 'truncated'):
            if op['op'] == 'list_names':
                # only lexical failures concern the lister
                if kind in LEXICAL:
                    ctx.probe('list_names_lexical')
                    if exc is None:
                        ctx.report('missing_error', '%s returned normally' % what, {'kind': 'missing_error', 'failure': kind})
                    elif not isinstance(exc, ParserError):
                        ctx.report('wrong_error_class', '%s raised %s: %s' % (what, type(exc).__name__, canon.norm_msg(str(exc))[:160]),
                                   {'kind': 'wrong_error_class', 'failure': kind})
                    kinds_judged.add(kind)
                elif exc is not None and not isinstance(exc, ParserError):
                    ctx.report('wrong_error_class', '%s raised %s: %s' % (what, type(exc).__name__, canon.norm_msg(str(exc))[:160]),
                               {'kind': 'wrong_error_class', 'failure': kind})
                continue
            if kind in SURELY_INVALID:
                ctx.probe(kind)
                ctx.fault('bad_source')
                kinds_judged.add(kind)
                if exc is None:
                    ctx.report('missing_error', '%s returned normally although the text is invalid by construction' % what,
                               {'kind': 'missing_error', 'failure': kind})
                    continue
            if exc is not None and not isinstance(exc, ParserError) and (op['op'] == 'parse' or kind in SURELY_INVALID):
                ctx.report('wrong_error_class', '%s raised %s: %s instead of ParserError' % (what, type(exc).__name__, canon.norm_msg(str(exc))[:160]),
                           {'kind': 'wrong_error_class', 'failure': kind})
            continue
        if kind in LISTED_RUNTIME:
            ctx.probe(kind)
            ctx.fault('failing_program')
            kinds_judged.add(kind)
            if '=>' in src:
                ctx.probe('inside_lambda')
            if exc is None:
                ctx.report('missing_error', '%s returned normally' % what, {'kind': 'missing_error', 'failure': kind})
            elif not isinstance(exc, ParserError):
                ctx.report('wrong_error_class', '%s raised %s: %s instead of ParserError' % (what, type(exc).__name__, canon.norm_msg(str(exc))[:160]),
                           {'kind': 'wrong_error_class', 'failure': kind})
            elif kind == 'op_budget' and not isinstance(exc, OpsExecutionLimitExceededError):
                ctx.report('wrong_error_class', '%s raised %r, not the ops-limit subclass' % (what, exc), {'kind': 'wrong_error_class', 'failure': kind})
    if len(kinds_judged) >= 3:
        ctx.nontrivial = True


def _repl_session(case, ctx):
    import prompt_toolkit
    import smartquery.repl as repl_mod
    lines = [op['src'] for op in case['ops'] if op['op'] != 'noise']
    feed = list(lines)
    prompts = []

    class FakeSession:
        def __init__(self, *a, **k):
            pass

        def prompt(self, *a, **k):
            prompts.append(1)
            if not feed:
                raise KeyboardInterrupt()
            return feed.pop(0)
    real_session = prompt_toolkit.PromptSession
    real_ctor = repl_mod.SqParser
    prompt_toolkit.PromptSession = FakeSession
    if not case['world'].get('real_constructor'):
        repl_mod.SqParser = lambda *a, **k: boot.fresh_parser()
    out = io.StringIO()
    rc = None
    exc = None
    try:
        with contextlib.redirect_stdout(out):
            rc = repl_mod.repl()
    except BaseException as e:
        if type(e).__name__ in ('RunTimeout', 'RunTooBig'):
            raise
        exc = e
    finally:
        prompt_toolkit.PromptSession = real_session
        repl_mod.SqParser = real_ctor
    ctx.probe('repl_session')
    ctx.fault('repl_lines', len(lines))
    ctx.event('repl', len(lines), rc, type(exc).__name__ if exc else None, len(out.getvalue()))
    consumed = len(lines) - len(feed)
    if exc is not None:
        ctx.report('repl_died', 'the REPL loop died with %r after %d of %d lines (line %r)' % (exc, consumed, len(lines), lines[consumed - 1][:120] if consumed else ''),
                   {'kind': 'repl_died'})
    if rc != 0 or feed:
        ctx.report('repl_exit', 'the REPL returned %r with %d lines unread (it must return 0 only on KeyboardInterrupt)' % (rc, len(feed)), {'kind': 'repl_exit'})
    ctx.nontrivial = True


def sample(case):
    return {'repl': case['world'].get('repl'), 'ops': case['ops'][:8]}
