"""C19 - random builtins stay within their documented range (DESIGN.md section 5, C19).

Simulated: entropy is behind a seam. The public functions of the `random` module are rebound (before smartquery is
imported) to one scripted Random instance: the stdlib algorithms run for real on top of a seeded bit stream, or of a
finite adversarial prefix (all-zero / all-one / alternating words) followed by the seeded stream. Many draws per
input are made inside one eval (map over a host list), on one long-lived parser.
"""
from decimal import Decimal

from .. import boot, canon, gen, lang, monitors
from ..rng import Streams, weighted, RealRandom
from ..seams import ENTROPY
from ..world import real_eval

ID = 'C19'
LEVEL = 'exploration'
TIERS = {'quick': 5000, 'thorough': 200000}
RULE = ('seeded histories of 3-10 evals on one parser; each eval makes n (50-500, >= 40x the range width when the '
        'range is narrow) draws of rand() / rand(a, b) / rand(list) / shuffle(list) under a scripted entropy source '
        '(seeded stream, or 1-8 extreme words - zero / one / alternating - then the stream); bounds: Decimal literals, '
        'host ints, bools, integer-valued host Decimals, a == b, negative, up to 34 significant digits; lists: empty, '
        '1 element, nested, host-supplied. Oracle: 0 <= rand() < 1; a <= rand(a,b) <= b and integer-valued; every value '
        'of a range of width <= 6 appears; rand(list) is (identically) an element; shuffle returns a new list that is a '
        'permutation by element identity and leaves its argument unchanged; a > b / fractional bounds / empty list: any '
        'ordinary Exception. non-trivial = an extreme entropy prefix was consumed by the draws of the run; distinct by '
        'sha256 of the case')
ASSUMPTIONS = ['a constant all-ones source is not a legal random stream (stdlib _randbelow would spin forever): extreme words come as a finite prefix',
               'which element rand(list) picks is not judged, only membership']
REAL = ['smartquery.functions (_rand, _shuffle)', 'stdlib random algorithms (randint, choice, shuffle, random)', 'evaluator']
STUB = ['entropy source (scripted bits)']
REACH_PROBES = ('extreme_prefix_consumed', 'rand01', 'rand_ab_literal', 'rand_ab_host_int', 'rand_ab_big', 'rand_ab_equal',
                'rand_list', 'shuffle', 'shuffle_short_list', 'endpoint_coverage_checked', 'illegal_args', 'standin_then_builtin', 'trailing_zero_bounds', 'names_omitted', 'very_wide_range', 'host_float_bounds', 'draw_after_failed_lambda')
SIM_TIME = 'logical: entropy draws; no clock in this property'

LITERAL_LISTS = {'lit': '[[1], [2], [3]]', 'hash1': '["#red", "#green", "#blue"]', 'hash2': '["#cyan", "#black"]'}
LITERAL_VALUES = {'lit': [[1], [2], [3]], 'hash1': ['#red', '#green', '#blue'], 'hash2': ['#cyan', '#black']}
BIG = [10 ** 30, 123456789012345678901234567890123, 10 ** 18, 2 ** 64, 99999999999999999999999999999]


def _bounds(r):
    k = weighted(r, [('small', 5), ('equal', 1.5), ('neg', 2), ('big', 2), ('wide', 1.5), ('bool', 0.5), ('verywide', 1.5)])
    if k == 'verywide':
        a = r.choice([0, 1, -5, -(10 ** 40)])
        return a, a + r.choice([2 ** 63 - 1, 2 ** 63, 10 ** 20, 2 ** 64, 2 * 10 ** 40]), k
    if k == 'small':
        a = r.randint(0, 20)
        return a, a + r.randint(1, 5), k
    if k == 'equal':
        a = r.choice([0, 1, -3, 7, 10 ** 30 + 1])
        return a, a, k
    if k == 'neg':
        a = -r.randint(1, 50)
        return a, a + r.randint(1, 60), k
    if k == 'big':
        a = r.choice(BIG) * r.choice([1, -1]) + r.randint(0, 9)
        return a, a + r.randint(1, 5), k
    if k == 'bool':
        return 0, 1, k
    a = r.randint(-1000, 1000)
    return a, a + r.randint(100, 10 ** 6), k


def _num_tree(v):
    return ['num', str(v)] if v >= 0 else ['neg', ['num', str(-v)]]


def generate(seed, tier):
    S = Streams(seed)
    rc, ro, rf = S['config'], S['ops'], S['faults']
    names = {'L': [[1], [2], [3, [4]], {'m': [['k', 5]]}, []][:rc.randint(1, 5)], 'E': [], 'ONE': [[9]], 'S': [1, 'a', None, True, {'d': '2.5'}]}
    ops = []
    for _ in range(rc.randint(3, 10)):
        kind = weighted(ro, [('rand01', 2), ('rand_ab', 6), ('rand_list', 3), ('shuffle', 4), ('illegal', 1), ('no_names', 1.2)])
        op = {'op': 'draws', 'kind': kind, 'n': ro.choice([50, 100, 200, 500])}
        if kind == 'rand_ab':
            a, b, bk = _bounds(ro)
            form = weighted(ro, [('literal', 4), ('host_int', 3), ('host_dec', 2), ('host_bool', 0.5 if bk == 'bool' else 0),
                                 ('literal_dot0', 1.5), ('host_dec_dot00', 1), ('literal_sugar', 1.5), ('host_float', 1.2)])
            if form == 'host_float':
                # integer-valued Python floats (exactly representable ones, also far above 2**53)
                a = int(float(a))
                b = max(a, int(float(b)))
            if form == 'literal' and (a < 0 or b < 0) and max(len(str(abs(a))), len(str(abs(b)))) > 27:
                # unary minus on a literal rounds to 28 digits before rand sees it (arithmetic, not rand): hand such
                # bounds over as host values instead
                form = 'host_int'
            op.update(a=str(a), b=str(b), form=form, bk=bk)
            if form in ('host_int', 'host_dec', 'host_float') and rf.random() < 0.15:
                # earlier in the same program a lambda whose parameter is called like a bound fails; the host callback
                # that drove it absorbs the error and the program goes on to draw
                op['failed_lambda'] = rf.choice(['hi', 'lo'])
            if b - a <= 5:
                op['n'] = max(op['n'], 40 * (b - a + 1))
        elif kind == 'rand_list':
            op['list'] = ro.choice(['L', 'S', 'ONE', 'lit', 'hash1', 'hash2', 'hash1', 'hash2', 'VL'])
        elif kind == 'shuffle':
            op['list'] = ro.choice(['L', 'S', 'ONE', 'E', 'lit', 'hash1', 'hash2'])
            if ro.random() < 0.06:
                op['list'] = ro.choice(['FULL', 'FULL1'])      # a list of exactly 10000 / 9999 elements: legal, and shuffled like any other
                op['n'] = 2
        elif kind == 'illegal':
            op['what'] = ro.choice(['a_gt_b', 'fraction', 'empty_list', 'three_args', 'string'])
        elif kind == 'no_names':
            # evaluations given no names mapping at all: what one of them binds must not be there for the next
            op['bind'] = ro.choice(['rand = (a, b) => 99', 'shuffle = 5', 'rand = 0.5', 'x = 1', 'shuffle = v => v'])
            op['n'] = 50
        pre = []
        if rf.random() < 0.45:
            pre = [rf.choice(['zero', 'one', 'alt']) for _ in range(rf.randint(1, 8))]
            if rf.random() < 0.5:
                pre = [pre[0]] * len(pre)
        op['entropy'] = {'seed': ro.randrange(2 ** 32), 'prefix': pre}
        if rf.random() < 0.1:
            from ..history import noise_op
            ops.append(dict(noise_op(rf), noise=True))
        ops.append(op)
    world = {'names': names}
    if rc.random() < 0.35:
        # the parser carries a parse cache and the host's FIRST use of each text ran with stand-ins bound as rand / shuffle
        # (say, a test double); afterwards only plain data is bound: the library's own builtins must answer
        world['cache'] = {'kind': 'dict'}
        world['standins_first'] = True
    return {'world': world, 'ops': ops}


def execute(case, ctx):
    names = {k: lang.dec_value(v) for k, v in case['world']['names'].items()}
    names['FULL'] = list(range(10000))
    names['VL'] = [10 ** 5000, [1], 10 ** 4400 + 1]      # elements too long to be turned into text (nobody asked for text)
    names['FULL1'] = list(range(9999))
    from ..seams import make_cache
    parser = boot.fresh_parser(make_cache(case['world'].get('cache')))
    seen_src = set()
    noise = {}
    for step, op in enumerate(case['ops']):
        ctx.step = step
        if op.get('noise'):
            from ..history import do_noise
            do_noise(parser, op, noise, ctx)
            continue
        ctx.op_kind(op['kind'])
        n = op['n']
        names['R'] = list(range(n))
        ENTROPY.script(op['entropy']['seed'], op['entropy']['prefix'])
        kind = op['kind']
        if kind == 'no_names':
            try:
                parser.eval(op['bind'])
            except Exception:
                pass
            ENTROPY.script(op['entropy']['seed'], op['entropy']['prefix'])
            ctx.probe('names_omitted')
            what = 'step %d: eval(%r) and then eval("[...] | map(v => rand(1, 6))"), both without a names mapping' % (step, op['bind'])
            for src2, lo, hi in (('[1,2,3,4,5,6,7,8] | map(v => rand(1, 6))', 1, 6), ('shuffle([1, 2, 3]) | sorted', None, None)):
                try:
                    v = parser.eval(src2, max_ops_evaluated=1000)
                except Exception as e:
                    ctx.report('rand_raised', '%s: %s raised %s: %s' % (what, src2, type(e).__name__, canon.norm_msg(str(e))[:160]), {'kind': 'rand_raised', 'call': 'no_names'})
                    continue
                if lo is not None and not all(isinstance(x, Decimal) and lo <= x <= hi and x == int(x) for x in v):
                    ctx.report('rand_out_of_range', '%s returned %r' % (what, v), {'kind': 'rand_out_of_range', 'call': 'no_names'})
                if lo is None and v != [1, 2, 3]:
                    ctx.report('shuffle_not_a_permutation', '%s: sorted(shuffle([1, 2, 3])) = %r' % (what, v), {'kind': 'shuffle_not_a_permutation'})
            continue
        if kind == 'rand01':
            src = 'map(R, v => rand())'
        elif kind == 'rand_ab':
            a, b = int(op['a']), int(op['b'])
            if op['form'] == 'literal':
                src = 'map(R, v => rand(%s, %s))' % (lang.render(_num_tree(a)), lang.render(_num_tree(b)))
            elif op['form'] == 'literal_sugar' and abs(a) < 10 ** 20 and abs(b) < 10 ** 20:
                # the other spellings of the same call; by the published operator table unary minus binds tighter than
                # the method / pipe suffix, so -2.rand(7) is rand(-2, 7)
                la = str(a) if a >= 0 else '-%d' % -a
                src = 'map(R, v => %s)' % RealRandom(n + a).choice(['%s.rand(%d)' % (la, b), '%s | rand(%d)' % (la, b), '(%s).rand(%d)' % (la, b)])
            elif op['form'] == 'literal_dot0' and a >= 0:
                # integer-valued numbers written with trailing fractional zeros
                src = 'map(R, v => rand(%d.0, %d.00))' % (a, b)
            else:
                conv = {'host_float': float, 'host_int': int, 'host_dec': Decimal, 'host_bool': bool, 'literal_dot0': Decimal, 'literal_sugar': int,
                        'host_dec_dot00': lambda x: Decimal(str(x) + '.00')}[op['form']]
                names['lo'], names['hi'] = conv(a), conv(b)
                src = 'map(R, v => rand(lo, hi))'
                if (a + b + n) % 4 == 0:
                    src = 'lo2 = lo\nhi2 = hi\nmap(R, v => rand(lo2, hi2))'       # a program of several lines
                if op.get('failed_lambda'):
                    p_ = op['failed_lambda']

                    def attempt(f, *args):
                        try:
                            return f(*args)
                        except Exception:
                            return None
                    attempt._sim_kind = 'host:attempt'
                    names['attempt'] = attempt
                    names['far'] = conv(b) + 1000 if p_ == 'hi' else conv(a) - 1000
                    src = 'bad = %s => 1 / (%s - %s)\nattempt(bad, far)\n%s' % (p_, p_, p_, src)
                    ctx.fault('lambda_failed_under_swallowing_host')
                    ctx.probe('draw_after_failed_lambda')
        elif kind == 'rand_list':
            src = 'map(R, v => rand(%s))' % LITERAL_LISTS.get(op['list'], op['list'])
        elif kind == 'shuffle':
            src = 'map(R, v => shuffle(%s))' % LITERAL_LISTS.get(op['list'], op['list'])
        else:
            src = {'a_gt_b': 'rand(5, 1)', 'fraction': 'rand(1.5, 2.5)', 'empty_list': 'rand(E)', 'three_args': 'rand(1, 2, 3)',
                   'string': 'rand("a", "b")'}[op['what']]
        arg_obj = names.get(op.get('list')) if op.get('list') in names else None
        if case['world'].get('standins_first') and src not in seen_src:
            seen_src.add(src)
            n2 = dict(names)
            n2['rand'] = lambda *a: 42
            n2['shuffle'] = lambda x: x
            n2['R'] = [0]
            real_eval(parser, src, n2, budget=10 ** 5)
            ctx.fault('host_standin_first')
            ctx.probe('standin_then_builtin')
        before = canon.snap(arg_obj) if arg_obj is not None else None
        rout = real_eval(parser, src, names, budget=10 ** 6)
        ctx.event(step, kind, rout.kind, canon.digest(rout.brief()))
        ctx.stats['entropy_draws'] += ENTROPY.draws
        ctx.state(canon.digest([kind, ENTROPY.draws, ENTROPY.extreme_draws, rout.kind]))
        if ENTROPY.extreme_draws:
            ctx.fault('entropy_extreme', ENTROPY.extreme_draws)
            ctx.probe('extreme_prefix_consumed')
            ctx.nontrivial = True
        what = 'step %d %r entropy=%s' % (step, src, op['entropy'])
        if rout.kind == 'base':
            ctx.report('non_exception_escaped', '%s: %r' % (what, rout.exc), {'kind': 'non_exception_escaped'})
        if kind == 'illegal':
            ctx.probe('illegal_args')
            # a > b, fractional bounds, an empty list, wrong arity: any ordinary Exception (or, for fractions, any value)
            continue
        if rout.kind != 'value':
            ctx.report('rand_raised', '%s raised %s: %s' % (what, type(rout.exc).__name__, canon.norm_msg(str(rout.exc))[:200]),
                       {'kind': 'rand_raised', 'call': kind})
            continue
        vals = rout.value
        if not isinstance(vals, list) or len(vals) != n:
            ctx.report('harness_shape', '%s: expected %d draws' % (what, n), {'kind': 'harness_shape'})
        if kind == 'rand01':
            ctx.probe('rand01')
            for v in vals:
                if not isinstance(v, (Decimal, int, float)) or isinstance(v, bool) or not (0 <= v < 1):
                    ctx.report('rand_out_of_range', '%s: rand() returned %r, not in [0, 1)' % (what, v), {'kind': 'rand_out_of_range', 'call': 'rand()'})
        elif kind == 'rand_ab':
            ctx.probe({'literal': 'rand_ab_literal', 'host_int': 'rand_ab_host_int'}.get(op['form'], 'rand_ab_host_int'))
            if op['bk'] == 'big':
                ctx.probe('rand_ab_big')
            if op['bk'] == 'verywide':
                ctx.probe('very_wide_range')
            if a == b:
                ctx.probe('rand_ab_equal')
            if op['form'] == 'host_float':
                ctx.probe('host_float_bounds')
            if op['form'] in ('literal_dot0', 'host_dec_dot00'):
                ctx.probe('trailing_zero_bounds')
            seen = set()
            for v in vals:
                ok = isinstance(v, (Decimal, int)) and not isinstance(v, bool) and v == int(v) and a <= v <= b
                if not ok:
                    ctx.report('rand_out_of_range', '%s: rand(%d, %d) returned %r' % (what, a, b, v), {'kind': 'rand_out_of_range', 'call': 'rand(a,b)'})
                seen.add(int(v))
            if b - a <= 5:
                ctx.probe('endpoint_coverage_checked')
                missing = [x for x in range(a, b + 1) if x not in seen]
                if missing:
                    ctx.report('rand_never_returns_value', '%s: over %d draws rand(%d, %d) never returned %s' % (what, n, a, b, missing),
                               {'kind': 'rand_never_returns_value'})
        elif kind == 'rand_list':
            ctx.probe('rand_list')
            src_list = arg_obj if arg_obj is not None else None
            for v in vals:
                if src_list is not None:
                    if not any(v is e for e in src_list):
                        ctx.report('rand_list_not_an_element', '%s: rand(list) returned %r which is not (identically) an element' % (what, v),
                                   {'kind': 'rand_list_not_an_element'})
                elif v not in LITERAL_VALUES[op['list']]:
                    ctx.report('rand_list_not_an_element', '%s: rand(list) returned %r' % (what, v), {'kind': 'rand_list_not_an_element'})
        elif kind == 'shuffle':
            ctx.probe('shuffle')
            if arg_obj is not None and len(arg_obj) < 2:
                ctx.probe('shuffle_short_list')
            for v in vals:
                if not isinstance(v, list):
                    ctx.report('shuffle_not_a_list', '%s: shuffle returned %r' % (what, type(v).__name__), {'kind': 'shuffle_not_a_list'})
                    break
                if arg_obj is not None:
                    if v is arg_obj:
                        ctx.report('shuffle_returned_its_argument', '%s: shuffle returned its argument instead of a new list' % what,
                                   {'kind': 'shuffle_returned_its_argument'})
                        break
                    if sorted(map(id, v)) != sorted(map(id, arg_obj)):
                        ctx.report('shuffle_not_a_permutation', '%s: %r is not a permutation (by element identity) of %r' % (what, v, arg_obj),
                                   {'kind': 'shuffle_not_a_permutation'})
                        break
                elif sorted(map(repr, v)) != sorted(map(repr, LITERAL_VALUES[op['list']])):
                    ctx.report('shuffle_not_a_permutation', '%s: %r' % (what, v), {'kind': 'shuffle_not_a_permutation'})
                    break
            if len(set(map(id, vals))) != len(vals):
                ctx.report('shuffle_returned_shared_list', '%s: two shuffle calls returned the same list object' % what,
                           {'kind': 'shuffle_returned_its_argument'})
        if before is not None and canon.snap(arg_obj) != before:
            ctx.report('argument_modified', '%s: the argument list changed: %r' % (what, arg_obj), {'kind': 'argument_modified'})


def simplify(case):
    for i, op in enumerate(case['ops']):
        if op.get('noise'):
            continue
        if op['entropy']['prefix']:
            o2 = dict(op, entropy=dict(op['entropy'], prefix=op['entropy']['prefix'][:-1]))
            yield dict(case, ops=case['ops'][:i] + [o2] + case['ops'][i + 1:])
        if op['n'] > 50 and not (op['kind'] == 'rand_ab' and int(op['b']) - int(op['a']) <= 5):
            yield dict(case, ops=case['ops'][:i] + [dict(op, n=50)] + case['ops'][i + 1:])


def sample(case):
    return case['ops'][:5]
