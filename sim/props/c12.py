"""C12 - assignment has value semantics (DESIGN.md section 5, C12).

Simulated: aliasing is invisible at the moment of assignment and shows only in the later history, possibly
through an object the host kept. A run is a history of evals on one parser over one persistent names mapping:
assignments in the four forms, mutations through either side, and host_mutate faults between calls (the host
changes an object it supplied or retained through keep()).
Oracle: (a) the copying reference model, op by op; (b) right after every assignment the mutable objects
reachable from the stored slot are fresh (for compound forms: the newly reachable ones) and disjoint from every
other root (names entries, kept host objects).
"""
from .. import canon, gen, lang, history, monitors
from ..rng import Streams, weighted

from ..model import runaway

ID = 'C12'
LEVEL = 'exploration'
TIERS = {'quick': 16000, 'thorough': 600000}
RULE = ('seeded histories (3-25 ops) on one SqParser and one persistent names mapping: assignments in the four '
        'forms (x = e, c[k] = e, x op= e, c[k] op= e; e a name, nested member, literal containing names, slice, '
        'builtin result, host-kept object) followed by program mutations through either side and host_mutate '
        'faults between calls; every eval judged against the copying reference model, plus identity-disjointness '
        'of the stored slot from all other roots right after each assignment. non-trivial = a container-valued '
        'assignment was followed by at least one mutation (program or host) and a later judged eval; distinct by '
        'sha256 of the case')
ASSUMPTIONS = ['parameter passing, push/insert arguments, map/filter/sorted results and un-assigned expression values may alias (the property is about assignment)',
               'x += list mutating the variable\'s own list object in place is not aliasing',
               'model and system share CPython containers and copy.deepcopy']
REAL = ['smartquery.*', 'copy', 'decimal']
STUB = ['host (supplies and retains objects, mutates them between calls)']
REACH_PROBES = ('assign_container', 'host_mutate_fired', 'mutation_after_assign', 'disjointness_checked',
                'kept_object_mutated', 'compound_list_assign', 'setitem_container', 'multi_assign_one_eval', 'uncopyable_host_object')


def _world(r):
    names = {'l': gen.host_list_spec(r, 1, 4, depth=1), 'd': gen.host_dict_spec(r, 1, 3, depth=1)}
    if r.random() < 0.6:
        names['n'] = [gen.host_list_spec(r, 1, 3, depth=0), gen.host_dict_spec(r, 1, 2, depth=0)]
    if r.random() < 0.04:
        names['bd'] = {'drange': 10000}      # a host dict that has reached the size cap (replacing an entry is refused like adding one)
    if r.random() < 0.12:
        names['bl'] = [0] * 64 + [[1]] + [0] * 15 + [{'m': [['k', [2]]]}] + [0] * 49       # 130 elements, containers at 64 and 80
    if r.random() < 0.08:
        names['bl2'] = [0] * 105 + [[3]] + [0] * 34                                       # 140 elements, one list at position 105
    if r.random() < 0.1:
        names['md'] = {'m': [['k%03d' % i, [i]] for i in range(r.choice([70, 100, 300]))]}      # a dict of 70 / 100 / 300 lists
    if r.random() < 0.3:
        names['nv'] = None                   # a host variable that holds nothing yet
    if r.random() < 0.3:
        names['l2'] = {'alias': 'l'}        # the host hands the same list to the program under a second name
    w = {'names': names, 'host_fns': ['keep']}
    if r.random() < 0.3:
        # the host function re(i) calls back into the same parser while an evaluation is in progress: an evaluation of
        # its own, on the same names mapping or on a fresh one (names of the outer call are then simply not there)
        w['host_fns'] = ['keep', 're']
        w['reentry'] = [{'api': 'eval', 'names': 'fresh', 'prog': ['block', [['short', 'l', '+=', ['list', [['num', '5']]]], ['num', '1']]]},
                        {'api': 'eval', 'names': 'same', 'prog': ['block', [['assign', 'y', ['name', 'l']], ['num', '1']]]},
                        {'api': 'eval', 'names': 'same', 'prog': ['block', [['short', 'l', '+=', ['list', [['name', 'd']]]], ['num', '1']]]},
                        {'api': 'eval', 'names': 'fresh', 'prog': ['block', [['assign', 'z', ['list', [['num', '1']]]], ['name', 'z']]]},
                        {'api': 'eval', 'names': 'same', 'prog': ['block', [['setitem', ['name', 'd'], ['str', 'rk'], ['name', 'l']], ['num', '1']]]}]
    if r.random() < 0.25:
        w['uncopyable'] = True       # the host also supplies a list holding an object copy.deepcopy rejects (a lock)
    return w


NEW_VARS = ['x', 'y', 'z']


def _source_expr(r, model):
    """Container-valued expression that could alias existing objects if a copy were missing."""
    tg = history.container_targets(model)
    if not tg:
        return gen.value_tree(r, 2)
    te, obj = r.choice(tg)
    k = weighted(r, [('name', 6), ('lit', 3), ('slice', 1), ('values', 1), ('sorted', 0.5), ('map', 1), ('keep', 1.5),
                     ('if', 1), ('get', 1), ('concat', 1), ('reversed', 0.5), ('items', 0.5), ('pair', 1.2)])
    if k == 'pair':
        # a (key, value) / (index, element) pair as handed out by items() / enumerate(): a tuple holding the container's own elements
        if isinstance(obj, dict) and obj:
            return ['index', ['call', 'items', [te], 'plain'], ['num', '0']]
        if isinstance(obj, list) and obj:
            return ['index', ['call', 'enumerate', [te], 'plain'], ['num', str(r.randrange(len(obj)))]]
        return te
    if k == 'name':
        return te
    if k == 'lit':
        te2, _ = r.choice(tg)
        return ['list', [te, te2]] if r.random() < 0.6 else ['dict', [[['str', 'p'], te], [['str', 'q'], te2]]]
    if k == 'slice' and isinstance(obj, list):
        return ['slice', te, ':', None, None]
    if k == 'values' and isinstance(obj, dict):
        return ['call', 'values', [te], gen.sugar(r, 1)]
    if k == 'items' and isinstance(obj, dict):
        return ['call', 'items', [te], gen.sugar(r, 1)]
    if k == 'sorted' and isinstance(obj, dict):
        return ['call', 'sorted', [te], gen.sugar(r, 1)]
    if k == 'reversed' and isinstance(obj, list):
        return ['call', 'reversed', [te], gen.sugar(r, 1)]
    if k == 'map' and isinstance(obj, list):
        return ['call', 'map', [te, ['lambda', ['v'], ['name', 'v']]], gen.sugar(r, 2)]
    if k == 'keep':
        return ['call', 'keep', [te], 'plain']
    if k == 'if':
        return ['if', te, ['bool', True], ['list', []]]
    if k == 'get' and isinstance(obj, dict) and obj:
        key = r.choice([x for x in obj.keys()])
        if isinstance(key, str):
            return ['call', 'get', [te, ['str', key]], gen.sugar(r, 2)]
    if k == 'concat' and isinstance(obj, list):
        return ['bin', '+', te, ['list', [te]]]
    return te


def _key_for(r, obj):
    if isinstance(obj, list):
        n = len(obj)
        return ['num', str(r.randrange(n))] if n and r.random() < 0.85 else ['num', str(n)]
    keys = [k for k in obj if isinstance(k, str)]
    if keys and r.random() < 0.6:
        return ['str', r.choice(keys)]
    return ['str', r.choice(['p', 'q', 'new'])]


def _gen_op(r, model):
    tg = history.container_targets(model)
    k = weighted(r, [('assign', 5), ('setitem', 4), ('short', 2.5), ('setitemop', 2), ('mutate', 8), ('host', 4), ('keep', 1)])
    if not tg:
        k = 'assign'
    if getattr(model, 'reentry', None) and r.random() < 0.12:
        i = r.randrange(len(model.reentry))
        call = ['call', 're', [['num', str(i)]], 'plain']
        prog = r.choice([call, ['assign', r.choice(NEW_VARS), ['list', [['name', 'l'], call]]], ['block', [call, ['assign', r.choice(NEW_VARS), ['name', 'l']]]]])
        return {'op': 'eval', 'prog': prog, 'form': 'reenter'}
    if k == 'assign' and tg and r.random() < 0.12:
        # a lambda whose parameter is named like a host variable is applied to another container; afterwards, in the
        # same evaluation, that host variable is assigned from / extended
        hostn = r.choice([n for n, v in model.host.items() if isinstance(v, list)] or ['l'])
        te, obj = r.choice(tg)
        seq = te if isinstance(obj, list) else ['list', [te]]
        stmts = [['call', 'map', [seq, ['lambda', [hostn], ['name', hostn]]], 'plain'],
                 r.choice([['assign', r.choice(NEW_VARS), ['name', hostn]], ['short', hostn, '+=', ['list', [['num', '5']]]]])]
        return {'op': 'eval', 'prog': ['block', stmts], 'form': 'block'}
    if k == 'assign' and r.random() < 0.3:
        # several assignments from the same source inside ONE eval call (state shared within a call)
        src = _source_expr(r, model)
        a, b = r.sample(NEW_VARS, 2)
        stmts = [['assign', a, src], ['assign', b, src]]
        if tg and r.random() < 0.4:
            te, obj = r.choice(tg)
            stmts.insert(1, ['setitem', te, _key_for(r, obj), src])
        if r.random() < 0.3:
            stmts.append(['assign', r.choice(NEW_VARS), ['name', a]])
        return {'op': 'eval', 'prog': ['block', stmts], 'form': 'block'}
    if k == 'assign':
        return {'op': 'eval', 'prog': ['assign', r.choice(NEW_VARS), _source_expr(r, model)], 'form': 'assign'}
    if k == 'setitem':
        te, obj = r.choice(tg)
        return {'op': 'eval', 'prog': ['setitem', te, _key_for(r, obj), _source_expr(r, model)], 'form': 'setitem'}
    if k == 'short' and 'nv' in model.host and model.host['nv'] is None and r.random() < 0.4:
        return {'op': 'eval', 'prog': ['short', 'nv', '+=', _source_expr(r, model)], 'form': 'short'}
    if k == 'short':
        lists = [(te, o) for te, o in tg if te[0] == 'name' and isinstance(o, list)]
        if lists:
            te, obj = r.choice(lists)
            src = _source_expr(r, model)
            if r.random() < 0.7:
                src = ['list', [src]]
            return {'op': 'eval', 'prog': ['short', te[1], '+=', src], 'form': 'short'}
        return {'op': 'eval', 'prog': ['assign', r.choice(NEW_VARS), _source_expr(r, model)], 'form': 'assign'}
    if k == 'setitemop':
        cands = []
        for te, o in tg:
            if isinstance(o, list):
                for i, x in enumerate(o[:4]):
                    if isinstance(x, list):
                        cands.append((te, ['num', str(i)]))
            else:
                for kk, x in list(o.items())[:4]:
                    if isinstance(x, list) and isinstance(kk, str):
                        cands.append((te, ['str', kk]))
        if cands:
            te, key = r.choice(cands)
            src = _source_expr(r, model)
            if r.random() < 0.7:
                src = ['list', [src]]
            return {'op': 'eval', 'prog': ['setitemop', te, key, '+=', src], 'form': 'setitemop'}
        te, obj = r.choice(tg)
        return {'op': 'eval', 'prog': ['setitem', te, _key_for(r, obj), _source_expr(r, model)], 'form': 'setitem'}
    if k == 'mutate':
        te, obj = r.choice(tg)
        v = gen.scalar_tree(r)
        if isinstance(obj, list):
            m = weighted(r, [('push', 4), ('pop', 2), ('set', 3), ('insert', 1), ('del', 1), ('remove', 0.5)])
            if m == 'push':
                prog = ['call', 'push', [te, v], gen.sugar(r, 2)]
            elif m == 'pop':
                prog = ['call', 'pop', [te], gen.sugar(r, 1)]
            elif m == 'set':
                prog = ['setitem', te, _key_for(r, obj), v]
            elif m == 'insert':
                prog = ['call', 'insert', [te, ['num', '0'], v], gen.sugar(r, 3)]
            elif m == 'del':
                prog = ['del', te, _key_for(r, obj)]
            else:
                prog = ['call', 'remove', [te, v], gen.sugar(r, 2)]
        else:
            m = weighted(r, [('set', 5), ('del', 2), ('remove', 1)])
            if m == 'set':
                prog = ['setitem', te, _key_for(r, obj), v]
            elif m == 'del':
                prog = ['del', te, _key_for(r, obj)]
            else:
                prog = ['call', 'remove', [te, _key_for(r, obj)], gen.sugar(r, 2)]
        return {'op': 'eval', 'prog': prog, 'form': 'mutate'}
    if k == 'keep':
        te, obj = r.choice(tg)
        return {'op': 'eval', 'prog': ['call', 'keep', [te], 'plain'], 'form': 'keep'}
    # host mutation between calls
    how = r.choice(['append', 'clear', 'pop', 'set0', 'nested_append'])
    arg = r.choice(['HM', 77, None, True])
    if model.kept and r.random() < 0.5:
        idxs = [i for i, o in enumerate(model.kept) if isinstance(o, (list, dict))]
        if idxs:
            return {'op': 'host_mutate', 'target': ['kept', r.choice(idxs)], 'how': how, 'arg': arg}
    roots = [n for n, v in model.host.items() if isinstance(v, (list, dict))]
    if not roots:
        return {'op': 'eval', 'prog': ['assign', 'x', ['list', []]], 'form': 'assign'}
    name = r.choice(roots)
    target = ['names', name]
    v = model.host[name]
    if r.random() < 0.4:
        if isinstance(v, list):
            ix = [i for i, x in enumerate(v) if isinstance(x, (list, dict))]
            if ix:
                target.append(r.choice(ix))
        else:
            ks = [kk for kk, x in v.items() if isinstance(x, (list, dict))]
            if ks:
                target.append(r.choice(ks))
    return {'op': 'host_mutate', 'target': target, 'how': how, 'arg': arg}


def _apply_model(model, op):
    if op['op'] == 'eval':
        return model.run(op['prog'])
    try:
        o = history.resolve_path(model.host, model.kept, op['target'])
    except (LookupError, TypeError):
        return ('skip', None)
    history.host_mutate(o, op['how'], op.get('arg'))
    return ('host', None)


def generate(seed, tier):
    S = Streams(seed)
    rc, ro = S['config'], S['ops']
    world = _world(rc)
    model = history.model_only(world)
    if world.get('uncopyable'):
        import threading
        model.host['hx'] = [threading.Lock(), [1, 2], {'k': [3]}]
    ops = []
    for _ in range(rc.randint(3, 25)):
        op = _gen_op(ro, model)
        if op['op'] == 'eval':
            op['style'] = gen.style(S['render'])
        ops.append(op)
        out = _apply_model(model, op)
        if runaway(out):
            ops.pop()        # a time / memory bomb for both worlds: not part of the history
        if out[0] == 'unspec':
            break
    return {'world': world, 'ops': ops}


def _roots(W):
    roots = []
    for k, v in W.names.items():
        roots.append((('names', k), v))
    for i, v in enumerate(W.host.kept):
        roots.append((('kept', i), v))
    return roots


def execute(case, ctx):
    W = history.World(case['world'])
    if case['world'].get('uncopyable'):
        import threading
        lock = threading.Lock()
        W.names['hx'] = [lock, [1, 2], {'k': [3]}]
        W.model.host['hx'] = [lock, [1, 2], {'k': [3]}]
        ctx.probe('uncopyable_host_object')
    assigned_container = False
    mutated_after = False
    for step, op in enumerate(case['ops']):
        ctx.step = step
        ctx.op_kind(op['op'] + ':' + op.get('form', op.get('how', '')))
        if op['op'] == 'host_mutate':
            try:
                ro = history.resolve_path(W.names, W.host.kept, op['target'])
                mo = history.resolve_path(W.model.host, W.model.kept, op['target'])
            except (LookupError, TypeError):
                continue
            ch = history.host_mutate(ro, op['how'], op.get('arg'))
            history.host_mutate(mo, op['how'], op.get('arg'))
            if ch:
                ctx.fault('host_mutate')
                ctx.probe('host_mutate_fired')
                if op['target'][0] == 'kept':
                    ctx.probe('kept_object_mutated')
                if assigned_container:
                    mutated_after = True
            # the host's mutation must be visible exactly where the model says (and nowhere else)
            a = canon.canon(W.model.host)
            b = canon.canon(W.names, monitors.M.fn_names)
            if a != b:
                ctx.report('alias_visible_after_host_mutation',
                           'step %d: after the host mutated %s (%s) the names mapping differs from the copying model: model %s, system %s' % (
                               step, op['target'], op['how'], str(a)[:300], str(b)[:300]),
                           {'kind': 'alias_visible_after_host_mutation'})
            ctx.event(step, 'host_mutate', ch)
            continue
        form = op.get('form')
        pre = None
        slot_pre = None
        if form in ('assign', 'setitem', 'short', 'setitemop'):
            pre = {}
            for _, v in _roots(W):
                canon.reachable_mutables(v, pre)       # holds the objects alive: ids cannot be reused
            if form in ('short', 'setitemop'):
                slot_pre = _slot(W, op)
                slot_pre = canon.reachable_mutables(slot_pre) if slot_pre is not None else {}
        judged, rout, mout = W.eval_and_judge(ctx, op, step)
        if not judged:
            break
        if form == 'block' and mout[0] == 'value':
            assigned_container = True
            ctx.probe('multi_assign_one_eval')
        if form == 'mutate' and assigned_container and mout[0] == 'value':
            mutated_after = True
            ctx.probe('mutation_after_assign')
        if pre is not None and rout.kind == 'value' and mout[0] == 'value':
            slot = _slot(W, op)
            if isinstance(slot, (list, dict)):
                assigned_container = True
                ctx.probe('assign_container')
                if form == 'setitem':
                    ctx.probe('setitem_container')
                if form in ('short', 'setitemop'):
                    ctx.probe('compound_list_assign')
                reach = canon.reachable_mutables(slot)
                fresh_needed = reach if slot_pre is None else {i: o for i, o in reach.items() if i not in slot_pre}
                ctx.probe('disjointness_checked')
                shared = [o for i, o in fresh_needed.items() if i in pre]
                if shared:
                    ctx.report('stored_value_aliases_existing_object',
                               'step %d %r: after the assignment the stored value shares a mutable object with a pre-existing one: %s' % (
                                   step, lang.render(op['prog'])[:200], str(canon.canon(shared[0]))[:200]),
                               {'kind': 'stored_value_aliases_existing_object', 'form': form})
        if mutated_after and judged:
            ctx.nontrivial = True
        ctx.state(W.state_digest())


def _slot(W, op):
    prog = op['prog']
    try:
        if prog[0] in ('assign', 'short'):
            return W.names.get(prog[1])
        # container expression and key are side-effect free here (names / index chains / literals)
        m = W.model
        c = _eval_path(W.names, prog[1])
        k = prog[2]
        key = k[1]
        if isinstance(c, list):
            return c[int(key)]
        return c[str(key)]
    except Exception:
        return None


def _eval_path(names, te):
    if te[0] == 'name':
        return names[te[1]]
    if te[0] == 'index':
        c = _eval_path(names, te[1])
        k = te[2][1]
        return c[int(k)] if isinstance(c, list) else c[str(k)]
    raise LookupError(te[0])


def simplify(case):
    from ..shrink import simplify_trees
    yield from simplify_trees(case, None)


def sample(case):
    return {'world': case['world'], 'ops': [lang.render(o['prog'], o.get('style', 0)) if o['op'] == 'eval' else o for o in case['ops']][:14]}
