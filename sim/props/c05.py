"""C05 - regular-expression builtins cannot hang the host (DESIGN.md section 5, C05) - PARTIAL, level "other".

What is simulated is the WIRING of the timeout. The matching entry points of the third-party `regex` module (module
functions and methods of compiled patterns) are rebound, before smartquery is imported, to a recording facade with a
virtual clock: every engine entry advances the clock by the timeout it was given when that is a finite positive
number and by +infinity otherwise - the worst case for an adversarial subject, ASSUMING the engine honours its
timeout - and then delegates to the real engine on the first 14 characters of the subject (always fast, so that results stay realistic for short subjects and nothing depends on a real clock). The wall
clock the library can read through `time` is the same virtual clock; a scripted host function wait(s) lets virtual
time pass between calls inside one evaluation. What cannot be simulated: the clock that enforces the timeout lives in
_regex.c, and pattern compilation runs before any timeout exists (listed known finding, re-confirmed by a bounded
real probe that can only confirm that finding).
"""
import math
import os
import subprocess
import sys

from .. import boot, canon, gen, lang, monitors
from ..rng import Streams, weighted
from ..seams import REGEX, VCLOCK, ENTROPY
from ..world import real_eval

ID = 'C05'
NEEDS_BUILTIN_WRAPPERS = True      # reads what the builtin monitor records (hooks / effect log)
LEVEL = 'other'
TIERS = {'quick': 3000, 'thorough': 120000}
WALL_CAP = 180
CALL_BOUND = 0.25          # virtual seconds per builtin call: constant part
PER_CHAR = 1e-5            # plus time linear in len(pattern) + len(subject): 10^5 characters -> 1 s is "seconds": 1e-5/char -> <= 1 s total
ENTRY_MAX = 0.1
ENTRY_PER_CHAR = 5e-6
RULE = ('seeded histories of 3-10 evals on one parser: match / match_groups / match_all (and any other table entry that '
        'reaches the regex engine) called directly, as method, as pipe, inside map / filter lambdas, with flag strings '
        '(i m s, mixed case, empty, None, junk), patterns from a generator of nested quantifiers, alternations, counted '
        'repeats (<= 50), back-references, fuzzy and reverse constructs, 0-3 capture groups, subjects of 0 - 10^5 characters, '
        'with virtual time passing between calls (host wait) inside one evaluation. Oracle: every engine entry made by a '
        'builtin call carries 0 < timeout <= 0.1 + 5e-6 * (len(pattern) + len(subject)) and the virtual time charged to one '
        'builtin call is <= 0.25 s + 1e-5 s per character. non-trivial = an adversarial (nested-quantifier or long-subject) '
        'call was made after virtual time had passed in the same evaluation; distinct by sha256 of the case')
EXPLANATION = ('Partial: the timeout WIRING of every regex-reaching builtin call is checked under a virtual clock over seeded '
               'call histories (which call sites pass a timeout, its value, what happens after time has passed inside an '
               'evaluation); the regex engine itself is trusted to honour timeout= (stub for timing purposes, real for '
               'results) and its compile phase - which has no timeout - is a listed known finding confirmed by one bounded '
               'real-CPU probe that cannot raise new alarms.')
ASSUMPTIONS = ['the regex engine honours timeout= (its clock is clock() inside _regex.c and cannot be put behind a Python seam)',
               'pattern compilation is not covered by any timeout (known finding C05-compile-unbounded)',
               'the time allowance may grow linearly with the lengths of pattern and subject, at most 1e-5 s per character']
REAL = ['smartquery.functions (regex builtins, flag parsing)', 'evaluator', 'regex engine for match RESULTS (on the first 14 characters of the subject)']
STUB = ['regex engine for TIMING (virtual clock charged with the timeout passed)', 'wall clock read through time.*', 'host wait()']
SIM_TIME = 'virtual seconds charged to regex engine entries and host waits (see counters virtual_ms)'
REACH_PROBES = ('match', 'match_groups', 'match_all', 'flags', 'inside_lambda', 'long_subject', 'nested_quantifier', 'two_groups',
                'time_passed_before_call', 'engine_entries', 'slow_last_argument', 'engine_timeout_raised', 'host_calls_returned_lambda', 'host_compiled_pattern')

FLAGS = [None, '', 'i', 'm', 's', 'ims', 'IM', 'is', 'x', 'zz', 'iiii']
BENIGN = ['\\d+', '[a-z]+', '(\\w)(\\d)', 'b', '.', 'a|b', '^a', 'c$', '(a)(b)?', '\\s']
NASTY = ['(?:(?:a|a)+b)?', '(a+b)?', 'x*', '(?#\\L<timeout>)(a|aa)+$', '(?:a|aa)+?', '(a|aa)+?(?=a|b)', '^(\\w+-?)+{id}$', 'a{x}(b+)+$', '(a+)+$', '(a|aa)+$', '(a*)*b', '(a|a)*c', '(.*a){12}', '(a+)+(b)$', '((a+)(c?))+$', '(?:a{1,50}){1,50}b', '(\\w+\\s?)*$',
         '(a|aa)+(c)$', '(?r)(a+)+b', '(?:aa|a)+?x{e<=1}', '(x+x+)+y', '(a)(b)\\1\\2(a+)+$']


def _call_tree(r, fn, subj, pat, flags):
    args = [subj, ['name', pat[1:]] if pat.startswith('@') else ['str', pat]]
    if flags is not None or r.random() < 0.1:
        args.append(['none'] if flags is None else ['str', flags])
    if r.random() < 0.2:
        # the LAST argument takes long to produce (a slow host lookup): time has passed when the builtin starts
        args[-1] = ['call', 'slow', [args[-1], ['num', r.choice(['0.3', '1', '2.5', '5'])]], 'plain']
    return ['call', fn, args, gen.sugar(r, len(args))]


def generate(seed, tier):
    S = Streams(seed)
    rc, ro = S['config'], S['ops']
    ops = []
    fav = rc.choice(NASTY + BENIGN) if rc.random() < 0.5 else None
    for _ in range(rc.randint(3, 10)):
        stmts = []
        kinds = []
        for _ in range(ro.randint(1, 4)):
            fn = ro.choice(['match', 'match_groups', 'match_all'])
            nasty = ro.random() < 0.4
            pat = ro.choice(NASTY if nasty else BENIGN)
            if fav is not None and ro.random() < 0.5:
                pat = fav           # the same pattern text again and again (whatever is remembered per pattern)
                nasty = fav in NASTY
            if ro.random() < 0.1:
                pat = '@PAT' if nasty else '@PATB'       # a pattern the host compiled and bound in names
            subj_kind = weighted(ro, [('short', 4), ('adversarial', 3 if nasty else 0.5), ('long', 1.5), ('huge', 0.4)])
            subj = {'short': ['name', 'S'], 'adversarial': ['name', 'ADV'], 'long': ['name', 'LONG'], 'huge': ['name', 'HUGE']}[subj_kind]
            if nasty and ro.random() < 0.12:
                subj = ['name', 'ML']       # many short lines: the whole text times out, no single line would
            if ro.random() < 0.06:
                subj = ro.choice([['none'], ['num', '1'], ['list', [['str', 'a']]], ['name', 'timeout']])      # not a string at all: the call fails
            flags = ro.choice(FLAGS)
            t = _call_tree(ro, fn, subj, pat, flags)
            x = ro.random()
            if x < 0.2:
                t = ['call', 'map', [['list', [subj, ['str', 'a1']]], ['lambda', ['v'], _call_tree(ro, fn, ['name', 'v'], pat, flags)]], 'plain']
                kinds.append('inside_lambda')
            elif x < 0.3:
                t = ['call', 'filter', [['list', [subj]], ['lambda', ['v'], _call_tree(ro, 'match', ['name', 'v'], pat, flags)]], 'plain']
                kinds.append('inside_lambda')
            kinds += [fn, 'nested_quantifier' if nasty else 'benign']
            if flags:
                kinds.append('flags')
            if subj_kind in ('long', 'huge'):
                kinds.append('long_subject')
            if pat.startswith('@'):
                kinds.append('host_compiled_pattern')
            if pat.count('(') - pat.count('(?') >= 2:
                kinds.append('two_groups')
            stmts.append(['assign', 'r%d' % len(stmts), t] if ro.random() < 0.5 else t)
            if ro.random() < 0.35:
                stmts.append(['call', 'wait', [['num', ro.choice(['0.2', '0.6', '1', '3', '0.01'])]], 'plain'])
                kinds.append('wait')
        ops.append({'op': 'eval', 'prog': ['block', stmts], 'style': gen.style(S['render']), 'kinds': kinds})
    if rc.random() < 0.3:
        # the host keeps a lambda an evaluation returned and calls it itself later, outside any evaluation
        fn = rc.choice(['match', 'match_groups', 'match_all'])
        ops.append({'op': 'host_lambda', 'src': 'v => %s(v, "%s")' % (fn, rc.choice(['(a+)+$', '\\\\d+', '(a|aa)+$'])), 'subject': rc.choice(['ADV', 'S', 'LONG'])})
    return {'world': {'adv_len': rc.choice([18, 22, 26]), 'long_len': rc.choice([3000, 8000, 20000]), 'huge_len': 100000,
                      'inject_timeouts': rc.random() < 0.5, 'premature': rc.random() < 0.3}, 'ops': ops}


def execute(case, ctx):
    if case.get('real_compile_probe'):
        return _real_compile_probe(case, ctx)
    w = case['world']
    names = {'S': 'ab1 cd22', 'ADV': 'a' * w['adv_len'] + 'b!', 'LONG': 'x' * (w['long_len'] - 30) + 'a' * 28 + 'b!',
             'HUGE': ('ab ' * (w['huge_len'] // 3))}
    import regex as _regex
    names['PAT'] = _regex.compile('(a|aa)+$')        # through the seam: a recording proxy of the compiled pattern
    names['PATB'] = _regex.compile('\\d+')

    def wait(sec):
        VCLOCK.advance(float(sec))
        return None
    wait._sim_kind = 'host:wait'
    names['wait'] = wait

    def slow(x, sec):
        VCLOCK.advance(float(sec))
        ctx.probe('slow_last_argument')
        return x
    slow._sim_kind = 'host:slow'
    names['slow'] = slow
    parser = boot.fresh_parser()
    REGEX.reset('virtual')
    REGEX.inject_timeouts = bool(w.get('inject_timeouts'))
    if w.get('premature') and REGEX.inject_timeouts:
        REGEX.premature_left = 60
        ctx.fault('regex_timeouts_arrive_early')
    names['ML'] = 'aaaaaaaaab\n' * 200
    names['timeout'] = 20        # plain data that happens to be called like a keyword argument of the engine
    state = {'adv_after_wait': False}

    def pre(name, args, rec):
        return (REGEX.clock, len(REGEX.entries), VCLOCK.offset)

    def post(name, args, result, ok, rec, pre_, nested):
        clock0, n0, off0 = pre_
        new = REGEX.entries[n0:]
        if not new or rec.bdepth > 0 and name in ('map', 'filter', 'reduce', 'sorted'):
            return
        if name in ('map', 'filter', 'reduce', 'sorted'):
            return          # the regex builtins called by the lambda were judged on their own
        elapsed = REGEX.clock - clock0
        rec.findings.append((name, new, elapsed))
    def judge_entries(entries, what, name):
        for fn, timeout, plen, slen in entries:
            ok = isinstance(timeout, (int, float)) and not isinstance(timeout, bool) and timeout == timeout and 0 < timeout <= ENTRY_MAX + ENTRY_PER_CHAR * (plen + slen)
            if not ok:
                ctx.report('regex_entry_without_bounded_timeout',
                           '%s: %s entered a regular-expression engine through %s with timeout=%r (pattern %d chars, subject %d chars): nothing bounds '
                           'the time an adversarial input can take there' % (what, name, fn, timeout, plen, slen),
                           {'kind': 'regex_entry_without_bounded_timeout', 'builtin': name})

    for step, op in enumerate(case['ops']):
        ctx.step = step
        if op['op'] == 'host_lambda':
            f = None
            try:
                f = parser.eval(op['src'], names, max_ops_evaluated=100)
            except Exception:
                pass
            if callable(f):
                n0 = len(REGEX.entries)
                c0 = REGEX.clock
                try:
                    f(names[op['subject']])
                except Exception:
                    pass
                ctx.probe('host_calls_returned_lambda')
                ctx.fault('call_outside_eval')
                what = 'step %d: the host called the lambda returned by eval(%r) on %s, outside any evaluation' % (step, op['src'], op['subject'])
                judge_entries(REGEX.entries[n0:], what, 'a regex builtin')
                if REGEX.clock - c0 > CALL_BOUND + PER_CHAR * 100000:
                    ctx.report('regex_call_exceeds_time_bound', '%s: charged %.3f virtual seconds' % (what, REGEX.clock - c0),
                               {'kind': 'regex_call_exceeds_time_bound', 'builtin': 'outside_eval'})
            continue
        src = lang.render(op['prog'], op.get('style', 0))
        n_entries0 = len(REGEX.entries)
        rec = monitors.Rec()
        rec.pre_builtin_hooks = (pre,)
        rec.builtin_hooks = (post,)
        off_before = VCLOCK.offset
        REGEX.mark, REGEX.mark_n = REGEX.clock if REGEX.clock != float('inf') else 0.0, len(REGEX.entries)
        rout = real_eval(parser, src, names, budget=5000, rec=rec)
        ctx.event(step, rout.kind, [(f[0], [(e[0], e[1]) for e in f[1]]) for f in rec.findings])
        ctx.op_kind(rout.kind)
        ctx.state(canon.digest([len(REGEX.entries), round(VCLOCK.offset, 2), rout.kind]))
        ctx.stats['virtual_ms'] += int((VCLOCK.offset - off_before) * 1000)
        what = 'step %d %r' % (step, src[:200])
        if type(rout.exc).__name__ == 'SimDeadlock':
            ctx.fault('lock_still_held')
            ctx.report('regex_call_blocks_forever', '%s: %s' % (what, rout.exc), {'kind': 'regex_call_blocks_forever'})
        elif rout.kind == 'base':
            ctx.report('non_exception_escaped', '%s: %r' % (what, rout.exc), {'kind': 'non_exception_escaped'})
        attributed = 0
        for name, entries, elapsed in rec.findings:
            ctx.probe('engine_entries', len(entries))
            attributed += len(entries)
            chars = max([plen + slen for fn, timeout, plen, slen in entries] or [0])
            judge_entries(entries, what, 'builtin ' + name)
            if elapsed > CALL_BOUND + PER_CHAR * chars:
                ctx.report('regex_call_exceeds_time_bound', '%s: one call of %s was charged %.3f virtual seconds over %d engine entries' % (
                    what, name, elapsed, len(entries)), {'kind': 'regex_call_exceeds_time_bound', 'builtin': name})
        # engine entries made while this evaluation ran but outside every builtin call (say, while the call expression
        # was being parsed) count against it just the same
        stray = REGEX.entries[n_entries0:]
        if len(stray) > attributed:
            seen = set()
            for name, entries, elapsed in rec.findings:
                seen.update(id(e) for e in entries)
            judge_entries([e for e in stray if id(e) not in seen], what, 'the evaluation (outside any builtin call)')
        if REGEX.timeouts_injected:
            ctx.fault('regex_timeout_injected', REGEX.timeouts_injected)
            ctx.probe('engine_timeout_raised')
            REGEX.timeouts_injected = 0
        kinds = op.get('kinds', ())
        for k in kinds:
            if k in REACH_PROBES:
                ctx.probe(k)
        if 'wait' in kinds:
            ctx.fault('virtual_time_passes')
            if 'nested_quantifier' in kinds or 'long_subject' in kinds:
                ctx.probe('time_passed_before_call')
                ctx.nontrivial = True
        if 'nested_quantifier' in kinds:
            ctx.fault('regex_stall')
    REGEX.reset('pass')


def _real_compile_probe(case, ctx):
    """Outside the technique and labelled so: CPU time of compiling a 17-character pattern in a watchdogged
    subprocess. Only ever run from the stored repro of the listed known finding; can confirm it, never raise a new alarm."""
    pat = case['real_compile_probe']
    code = 'import regex, sys; regex.compile(%r); sys.exit(0)' % pat
    try:
        r = subprocess.run(['/venv/bin/python', '-c', code], timeout=case.get('limit_s', 2.0), capture_output=True)
        finished = r.returncode == 0
    except subprocess.TimeoutExpired:
        finished = False
    if not finished:
        ctx.report('compile_unbounded', 'compiling the %d-character pattern %r did not finish within %.1f s: pattern compilation inside '
                   'regex.search / regex.findall runs before any timeout applies' % (len(pat), pat, case.get('limit_s', 2.0)),
                   {'kind': 'compile_unbounded'})


def sample(case):
    return {'ops': [lang.render(o['prog'], 0) if 'prog' in o else o for o in case.get('ops', [])][:4]}
