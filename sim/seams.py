"""Seams the simulator owns. install_before_import() must run before `smartquery` is imported.

S5 entropy  : public functions of the `random` module -> bound methods of one scripted Random instance
S6 clock    : matching entry points of the `regex` module -> recording facade with a virtual clock
S8 I/O      : sys.addaudithook, armed only while a simulated call is inside eval
S3 kill     : sys.settrace line events under the smartquery package dir -> SimKill at the k-th
S4 storage  : parse_cache fakes
"""
import collections
import collections.abc
import os
import random as _random
import sys

from .rng import RealRandom


class SimKill(BaseException):
    """Asynchronous abort injected by the simulator (not an Exception on purpose)."""


class RunTooBig(BaseException):
    """A program of the history turned out to be a memory / time bomb (a string of millions of characters - strings are
    not capped by any property): the run ends here, unjudged from this point. Never a verdict about the library."""


class RunTimeout(BaseException):
    """Raised by the harness (SIGALRM) when one run exceeds its soft wall cap. Never a verdict about the library: every
    handler that classifies outcomes lets it pass (reported as HARNESS-ERROR with a traceback)."""


# --------------------------------------------------------------------------- S5 entropy
class SeamRandom(_random.Random):
    """Real stdlib algorithms on top of a scripted bit source."""

    def __init__(self):
        super().__init__(0)
        self._src = RealRandom(0)
        self._prefix = collections.deque()
        self.draws = 0
        self.extreme_draws = 0

    def script(self, seed: int, prefix=()):
        """prefix: finite list of 'zero' | 'one' | 'alt' words served before the seeded stream."""
        self._src = RealRandom(int(seed))
        self._prefix = collections.deque(prefix)
        self.draws = 0
        self.extreme_draws = 0

    def _word(self, k):
        kind = self._prefix.popleft()
        self.extreme_draws += 1
        if kind == 'zero':
            return 0
        if kind == 'one':
            return (1 << k) - 1
        # alternating bits
        return int('10' * ((k + 1) // 2), 2) & ((1 << k) - 1)

    def getrandbits(self, k):
        self.draws += 1
        if k <= 0:
            return 0
        if self._prefix:
            return self._word(k)
        return self._src.getrandbits(k)

    def random(self):
        self.draws += 1
        if self._prefix:
            return self._word(53) / float(1 << 53)
        return self._src.random()

    def seed(self, *a, **k):  # programs / library code re-seeding must not escape the script
        return None

    def getstate(self):
        return self._src.getstate()

    def setstate(self, st):
        return None


ENTROPY = None
_RANDOM_PUBLIC = ('random', 'randint', 'randrange', 'choice', 'choices', 'shuffle', 'sample', 'uniform',
                  'getrandbits', 'seed', 'randbytes', 'triangular', 'gauss', 'normalvariate',
                  'betavariate', 'expovariate', 'gammavariate', 'lognormvariate', 'paretovariate',
                  'vonmisesvariate', 'weibullvariate')


def _install_entropy():
    global ENTROPY
    ENTROPY = SeamRandom()
    for name in _RANDOM_PUBLIC:
        if hasattr(_random, name) and hasattr(ENTROPY, name):
            setattr(_random, name, getattr(ENTROPY, name))
    _random._inst = ENTROPY


# --------------------------------------------------------------------------- S6 regex facade
class RegexFacade:
    """Recording facade over the real `regex` functions with a virtual clock.

    mode 'pass'    : delegate unchanged (other workloads), only count
    mode 'virtual' : every matching entry advances the virtual clock by `timeout` if a finite positive
                     timeout was supplied, by +inf otherwise (worst case for an adversarial subject,
                     assuming the engine honours its timeout), then delegates to the real engine with a
                     small real timeout so results stay realistic
    """
    MATCHING = ('search', 'match', 'fullmatch', 'findall', 'finditer', 'sub', 'subn', 'subf', 'subfn',
                'split', 'splititer')

    def __init__(self):
        self.mode = 'pass'
        self.clock = 0.0
        self.entries = []   # (fn, timeout-as-seen)
        self.real = {}
        self.compiles = 0
        self.real_timeout = 5.0       # never reached: the real engine only sees subject_cap characters
        self.subject_cap = 14
        self.inject_timeouts = False
        self.timeouts_injected = 0
        self.premature_left = 0       # injected timeouts that arrive EARLY on the wall clock (the engine measures CPU time
                                      # of the whole process: with other threads busy its allowance is spent sooner)

    def reset(self, mode='pass'):
        self.mark = 0.0
        self.mark_n = 0
        self.inject_timeouts = False
        self.timeouts_injected = 0
        self.premature_left = 0
        self.mode = mode
        self.clock = 0.0
        self.entries = []
        self.compiles = 0

    def charge(self, fn, timeout, plen=0, slen=0, fraction=1.0):
        self.entries.append((fn, timeout, plen, slen))
        ok = isinstance(timeout, (int, float)) and not isinstance(timeout, bool) and 0 < timeout < float('inf')
        self.clock += float(timeout) * fraction if ok else float('inf')
        if ok and self.clock - getattr(self, 'mark', 0.0) > 120.0 and len(self.entries) - getattr(self, 'mark_n', 0) > 400:
            # one evaluation keeps entering the engine without end (each entry within its timeout): it would never return
            raise SimDeadlock('more than 120 virtual seconds and 400 engine entries charged to one evaluation: the call does not return')
        if ok:
            VCLOCK.advance(float(timeout) * fraction)      # worst case: the engine used its whole allowance

    def should_time_out(self, pattern, subject):
        """Fault injection: for an adversarial (pattern, subject) pair the stub engine behaves as the real one does when
        it honours its timeout - it raises TimeoutError once the allowance is spent."""
        pattern = getattr(pattern, 'pattern', pattern)
        return self.inject_timeouts and isinstance(subject, str) and isinstance(pattern, str) and \
            len(subject) > self.subject_cap and any(m in pattern for m in ('+)+', '*)*', ')+$', '+)*', '){1,50}', '|a)*', '|aa)+', ')+(', '(.*a)'))


REGEX = RegexFacade()


def _partial_then_timeout(it):
    """An iterator that hands out the first real match and then times out (the engine ran out of its allowance while
    looking for the next one)."""
    for i, m in enumerate(it):
        if i >= 1:
            break
        yield m
    raise TimeoutError('regex engine timeout (injected by the simulator)')


class _PatternProxy:
    def __init__(self, pat):
        self.__dict__['_pat'] = pat

    @property
    def __class__(self):            # isinstance(proxy, regex.Pattern) holds, as for the object it stands for
        return type(self._pat)

    def __getattr__(self, name):
        real = getattr(self._pat, name)
        if name in RegexFacade.MATCHING:
            def entry(*a, **k):
                if REGEX.mode == 'virtual':
                    subj = a[1] if name in ('sub', 'subn', 'subf', 'subfn') and len(a) > 1 else (a[0] if a else k.get('string', ''))
                    REGEX.charge('pattern.' + name, k.get('timeout'), len(getattr(self._pat, 'pattern', '') or ''),
                                 len(subj) if isinstance(subj, str) else 0)
                    k = dict(k)
                    k['timeout'] = REGEX.real_timeout
                    a = list(a)
                    si = 1 if name in ('sub', 'subn', 'subf', 'subfn') else 0
                    full = a[si] if len(a) > si else None
                    if len(a) > si and isinstance(a[si], str):
                        a[si] = a[si][:REGEX.subject_cap]
                    if REGEX.should_time_out(getattr(self._pat, 'pattern', None), full) and k.get('timeout') is not None:
                        REGEX.timeouts_injected += 1
                        if name in ('finditer', 'splititer'):
                            return _partial_then_timeout(real(*a, **k))
                        raise TimeoutError('regex engine timeout (injected by the simulator)')
                else:
                    REGEX.entries.append(('pattern.' + name, k.get('timeout'), 0, 0))
                return real(*a, **k)
            return entry
        return real


def _install_re_facade():
    """The stdlib `re` engine has no timeout parameter at all: a builtin that reaches it (say, as a fallback when
    `regex` rejects a pattern) is unbounded. Module-level functions are recorded in virtual mode only; compiled
    patterns (what PLY's lexer uses) are left alone."""
    import re as _re
    for name in ('search', 'match', 'fullmatch', 'findall', 'finditer', 'sub', 'subn', 'split'):
        real = getattr(_re, name)

        def entry(*a, _real=real, _name=name, **k):
            if a and type(a[0]).__name__ == '_RePattern':
                a = (a[0]._pat,) + tuple(a[1:])
            if REGEX.mode == 'virtual':
                plen = len(a[0]) if a and isinstance(a[0], str) else 0
                si = 2 if _name in ('sub', 'subn') else 1
                subj = a[si] if len(a) > si else ''
                REGEX.charge('re.' + _name, None, plen, len(subj) if isinstance(subj, str) else 0)
                a = list(a)
                if len(a) > si and isinstance(a[si], str):
                    a[si] = a[si][:REGEX.subject_cap]
            return _real(*a, **k)
        entry.__name__ = name
        entry.__wrapped__ = real
        setattr(_re, name, entry)
    real_compile = _re.compile

    class _RePattern:
        def __init__(self, pat):
            self.__dict__['_pat'] = pat

        def __getattr__(self, nm):
            real = getattr(self._pat, nm)
            if nm in ('search', 'match', 'fullmatch', 'findall', 'finditer', 'sub', 'subn', 'split'):
                def entry(*a, **k):
                    if REGEX.mode != 'virtual':
                        return real(*a, **k)
                    si = 1 if nm in ('sub', 'subn') else 0
                    subj = a[si] if len(a) > si else ''
                    REGEX.charge('re.pattern.' + nm, None, len(self._pat.pattern) if isinstance(self._pat.pattern, str) else 0,
                                 len(subj) if isinstance(subj, str) else 0)
                    a = list(a)
                    if len(a) > si and isinstance(a[si], str):
                        a[si] = a[si][:REGEX.subject_cap]
                    return real(*a, **k)
                return entry
            return real

    def compile_(*a, **k):
        pat = real_compile(*a, **k)
        if REGEX.mode == 'virtual':
            return _RePattern(pat)
        # patterns the library compiles for itself (at import or later; PLY's lexer excluded) are proxied as well, so
        # that their use DURING a C05 run is seen; the proxy is a pass-through outside virtual mode
        fn = sys._getframe(1).f_code.co_filename.replace(os.sep, '/')
        if '/smartquery/' in fn and '/smartquery/ply/' not in fn:
            return _RePattern(pat)
        return pat
    compile_.__wrapped__ = real_compile
    _re.compile = compile_


def _install_regex():
    try:
        import regex
    except ImportError:      # pragma: no cover
        return
    for name in RegexFacade.MATCHING:
        real = getattr(regex, name, None)
        if real is None:
            continue
        REGEX.real[name] = real

        def entry(*a, _real=real, _name=name, **k):
            if a and type(a[0]) is _PatternProxy:
                a = (a[0]._pat,) + tuple(a[1:])      # a compiled pattern handed in by the host
            if REGEX.mode == 'virtual':
                ptxt = getattr(a[0], 'pattern', a[0]) if a else ''
                plen = len(ptxt) if isinstance(ptxt, str) else 0
                subj = a[2] if _name in ('sub', 'subn', 'subf', 'subfn') and len(a) > 2 else (a[1] if len(a) > 1 else k.get('string', ''))
                early = REGEX.premature_left > 0 and REGEX.should_time_out(a[0] if a else None, subj) and k.get('timeout') is not None
                if early:
                    REGEX.premature_left -= 1
                REGEX.charge(_name, k.get('timeout'), plen, len(subj) if isinstance(subj, str) else 0, fraction=0.2 if early else 1.0)
                k = dict(k)
                k['timeout'] = REGEX.real_timeout
                # the real engine only sees a short prefix of the subject: always fast, so no verdict or event ever
                # depends on a real clock (results stay realistic for short subjects, the common case)
                a = list(a)
                si = 2 if _name in ('sub', 'subn', 'subf', 'subfn') else 1
                full = a[si] if len(a) > si else None
                if len(a) > si and isinstance(a[si], str):
                    a[si] = a[si][:REGEX.subject_cap]
                if REGEX.should_time_out(a[0] if a else None, full) and k.get('timeout') is not None:
                    REGEX.timeouts_injected += 1
                    if _name in ('finditer', 'splititer'):
                        return _partial_then_timeout(_real(*a, **k))
                    raise TimeoutError('regex engine timeout (injected by the simulator)')
            else:
                REGEX.entries.append((_name, k.get('timeout'), 0, 0))
            return _real(*a, **k)
        entry.__name__ = name
        setattr(regex, name, entry)
    _install_re_facade()
    real_compile = regex.compile
    REGEX.real['compile'] = real_compile

    def compile_(*a, **k):
        REGEX.compiles += 1
        return _PatternProxy(real_compile(*a, **k))
    regex.compile = compile_


# --------------------------------------------------------------------------- S8 audit gate
class AuditGate:
    FORBIDDEN_PREFIX = ('os.', 'socket.', 'subprocess.', 'ctypes.', 'marshal.', 'shutil.', 'tempfile.', 'glob.',
                        'urllib.', 'http.', 'ftplib.', 'smtplib.', 'poplib.', 'imaplib.', 'nntplib.', 'telnetlib.',
                        'webbrowser.', 'winreg.', 'mmap.', 'fcntl.', 'resource.', 'signal.', 'syslog.', 'pty.',
                        'sqlite3.', 'msvcrt.', 'sys.setprofile', 'sys.settrace', 'sys._getframe',
                        'cpython.', 'gc.', 'pickle.', 'code.', 'function.', 'object.__')
    FORBIDDEN = ('open', 'exec', 'compile', 'import', 'builtins.input', 'builtins.breakpoint',
                 'sys.addaudithook', 'sys.excepthook', 'sys.unraisablehook', 'array.__new__', 'os.system')
    ALLOWED = ('builtins.id',)

    def __init__(self):
        self.armed = False
        self.installed = False
        self.pkgdir = None
        self.violations = []          # (event, args-summary)
        self.other = collections.Counter()
        self.seen = collections.Counter()
        self.ignore_trace_events = False

    def install(self, pkgdir):
        self.pkgdir = pkgdir
        if not self.installed:
            sys.addaudithook(self._hook)
            self.installed = True

    def _import_from_package(self):
        # an import statement / __import__ executed by smartquery code (not a lazy import inside a library)
        f = sys._getframe(2)
        while f is not None:
            fn = f.f_code.co_filename
            if 'importlib' in fn and 'frozen' in fn:
                f = f.f_back
                continue
            return fn.startswith(self.pkgdir)
        return False

    def _hook(self, event, args):
        if not self.armed:
            return
        self.armed = False      # the hook's own work must not recurse
        try:
            self.seen[event] += 1
            if event in self.ALLOWED:
                return
            if self.ignore_trace_events and event in ('sys.settrace', 'sys._getframe'):
                return
            if event == 'sys._getframe':
                # our own frame inspection in _import_from_package / harmless introspection by libraries
                self.other[event] += 1
                return
            if event == 'import':
                if self._import_from_package():
                    self.violations.append((event, repr(args[:1])[:120]))
                else:
                    self.other['import(lazy, library)'] += 1
                return
            if event in self.FORBIDDEN or event.startswith(self.FORBIDDEN_PREFIX):
                self.violations.append((event, repr(args)[:120]))
                return
            self.other[event] += 1
        finally:
            self.armed = True


AUDIT = AuditGate()


# --------------------------------------------------------------------------- S3 trace kill
class TraceKill:
    """Raise SimKill at the k-th 'line' event inside files under pkgdir (k is 1-based). k=None: count only."""

    def __init__(self, pkgdir, k=None, include_ply=True):
        self.pkgdir = pkgdir
        self.k = k
        self.count = 0
        self.fired = False
        self.where = None
        self.include_ply = include_ply
        self._cache = {}

    def _interesting(self, fn):
        r = self._cache.get(fn)
        if r is None:
            r = fn.startswith(self.pkgdir) and (self.include_ply or (os.sep + 'ply' + os.sep) not in fn)
            self._cache[fn] = r
        return r

    def _global(self, frame, event, arg):
        if self._interesting(frame.f_code.co_filename):
            return self._local
        return None

    def _local(self, frame, event, arg):
        if event == 'line' and not self.fired:
            self.count += 1
            if self.k is not None and self.count == self.k:
                self.fired = True
                self.where = (os.path.basename(frame.f_code.co_filename), frame.f_code.co_name, frame.f_lineno)
                raise SimKill('kill@%d' % self.k)
        return self._local

    def __enter__(self):
        self._old = sys.gettrace()
        sys.settrace(self._global)
        return self

    def __exit__(self, *exc):
        sys.settrace(self._old)
        return False


# --------------------------------------------------------------------------- S4 cache fakes
class CacheBase(collections.abc.MutableMapping):
    """A legal cache may forget; it never lies. Every fake counts what it did."""
    kind = 'dict'

    def __init__(self, **kw):
        self.d = {}
        self.stats = collections.Counter()
        self.on_store = None        # callback(key, tree) for the cached-tree snapshot oracle

    def __contains__(self, k):
        self.stats['contains'] += 1
        r = k in self.d
        if r:
            self.stats['hit'] += 1
        return r

    def __getitem__(self, k):
        self.stats['get'] += 1
        return self.d[k]

    def __setitem__(self, k, v):
        self.stats['set'] += 1
        self._store(k, v)

    def _store(self, k, v):
        self.d[k] = v
        if self.on_store:
            self.on_store(k, v)

    def __delitem__(self, k):
        del self.d[k]

    def __iter__(self):
        return iter(list(self.d))

    def __len__(self):
        return len(self.d)

    # fault entry points driven by the scheduler between calls
    def evict_key(self, k):
        if k in self.d:
            del self.d[k]
            self.stats['cache_evict'] += 1

    def evict_all(self):
        if self.d:
            self.stats['cache_evict'] += len(self.d)
        self.d.clear()


class DictCache(CacheBase):
    kind = 'dict'


class LruCache(CacheBase):
    kind = 'lru'

    def __init__(self, bound=2, **kw):
        super().__init__()
        self.bound = max(1, int(bound))
        self.d = collections.OrderedDict()

    def __getitem__(self, k):
        self.stats['get'] += 1
        v = self.d[k]
        self.d.move_to_end(k)
        return v

    def _store(self, k, v):
        self.d[k] = v
        self.d.move_to_end(k)
        if self.on_store:
            self.on_store(k, v)
        while len(self.d) > self.bound:
            self.d.popitem(last=False)
            self.stats['lru_evict'] += 1


class EvictingCache(CacheBase):
    """Forgets everything right after each store (always-evicting)."""
    kind = 'evicting'

    def _store(self, k, v):
        if self.on_store:
            self.on_store(k, v)
        self.stats['cache_evict'] += 1


class DropWriteCache(CacheBase):
    """Drops every n-th write (n >= 1; n == 1: all)."""
    kind = 'dropwrite'

    def __init__(self, every=2, **kw):
        super().__init__()
        self.every = max(1, int(every))
        self.n = 0

    def _store(self, k, v):
        self.n += 1
        if self.n % self.every == 0:
            self.stats['cache_drop_write'] += 1
            return
        super()._store(k, v)


class ReentrantCache(CacheBase):
    """Its callbacks call back into a parser (another parse of a fixed benign text) - foreign code inside parse."""
    kind = 'reentrant'

    def __init__(self, **kw):
        super().__init__()
        self.parser = None
        self.busy = False

    def _reenter(self):
        """Foreign code inside parse(): the cache callback itself parses another text on the SAME parser."""
        if self.parser is None or self.busy:
            return
        self.busy = True
        pc = self.parser.parse_cache
        self.parser.parse_cache = None
        try:
            self.stats['reentry'] += 1
            try:
                self.parser.parse('[1, (2)]\n3')
            except Exception:
                pass
        finally:
            self.parser.parse_cache = pc
            self.busy = False

    def __contains__(self, k):
        r = super().__contains__(k)
        self._reenter()     # before parse() resets its counters: must be harmless
        return r


CACHE_KINDS = {'dict': DictCache, 'lru': LruCache, 'evicting': EvictingCache, 'dropwrite': DropWriteCache,
               'reentrant': ReentrantCache}


def make_cache(spec):
    if spec is None:
        return None
    kind = spec.get('kind', 'dict')
    return CACHE_KINDS[kind](**{k: v for k, v in spec.items() if k != 'kind'})


# --------------------------------------------------------------------------- S6b wall clock as seen through `time`
class VClock:
    """time.time / monotonic / perf_counter / process_time (and _ns variants) return real time + a virtual offset;
    time.sleep advances the offset instead of sleeping. The offset only moves when the simulator injects a stall
    (host wait, regex engine entry charged with its timeout), so one seed is one exactly repeatable timeline as far
    as *differences* are concerned - and no check ever compares absolute times."""

    def __init__(self):
        self.offset = 0.0
        self.real = {}
        self.frozen = None      # when set, the real part is frozen at this value: fully deterministic readings

    def advance(self, dt):
        if dt == dt and dt not in (float('inf'), float('-inf')) and dt > 0:
            self.offset += dt

    def reset(self):
        self.offset = 0.0


VCLOCK = VClock()


def _install_clock():
    import time as _t
    for name in ('time', 'monotonic', 'perf_counter', 'process_time'):
        real = getattr(_t, name)
        VCLOCK.real[name] = real

        def f(_real=real):
            base = VCLOCK.frozen if VCLOCK.frozen is not None else _real()
            return base + VCLOCK.offset
        f.__name__ = name
        setattr(_t, name, f)
        rns = getattr(_t, name + '_ns', None)
        if rns is not None:
            VCLOCK.real[name + '_ns'] = rns

            def g(_real=rns):
                base = int(VCLOCK.frozen * 1e9) if VCLOCK.frozen is not None else _real()
                return base + int(VCLOCK.offset * 1e9)
            g.__name__ = name + '_ns'
            setattr(_t, name + '_ns', g)
    VCLOCK.real['sleep'] = _t.sleep

    def sleep(sec):
        VCLOCK.advance(float(sec))
    _t.sleep = sleep


_installed = False


# --------------------------------------------------------------------------- S9 locks
class SimDeadlock(BaseException):
    """A blocking acquire of a lock that is held and that nobody in the simulation can release any more: the real
    program would hang here for ever. Not an Exception on purpose (library code must not be able to swallow it)."""


class LockSeam:
    def __init__(self):
        self.created = 0
        self.deadlocks = 0
        self.all = []           # locks live as long as the module that created them: a handful per process

    def reset(self):
        """Before every run: no lock stays held from an earlier run (one seed = one repeatable execution)."""
        self.deadlocks = 0
        for l in self.all:
            l._owner = None
            l._count = 0


LOCKS = LockSeam()


class SimLock:
    """threading.Lock / RLock as created by smartquery code. The simulation has one runnable party at a time (host
    callbacks on other threads are joined synchronously), so a blocking acquire of a held lock can never succeed."""

    def __init__(self, reentrant=False):
        self._reentrant = reentrant
        self._owner = None
        self._count = 0
        LOCKS.created += 1
        if len(LOCKS.all) < 10000:
            LOCKS.all.append(self)

    def acquire(self, blocking=True, timeout=-1):
        import threading as _th
        me = _th.get_ident()
        if self._count == 0 or (self._reentrant and self._owner == me):
            self._owner = me
            self._count += 1
            return True
        if not blocking:
            return False
        if timeout is not None and timeout >= 0:
            VCLOCK.advance(float(timeout))
            return False
        LOCKS.deadlocks += 1
        raise SimDeadlock('blocking acquire of a lock that is still held (it was not released on an earlier path, e.g. a '
                          'call that failed): the call would block for ever')

    def release(self):
        if self._count == 0:
            raise RuntimeError('release unlocked lock')
        self._count -= 1
        if self._count == 0:
            self._owner = None

    def locked(self):
        return self._count > 0

    def __enter__(self):
        self.acquire()
        return True

    def __exit__(self, *exc):
        self.release()
        return False


def _install_locks():
    import threading as _th
    real = {'Lock': _th.Lock, 'RLock': _th.RLock}

    def _from_package():
        fn = sys._getframe(2).f_code.co_filename.replace(os.sep, '/')
        return '/smartquery/' in fn

    def Lock():
        return SimLock(False) if _from_package() else real['Lock']()

    def RLock(*a, **k):
        return SimLock(True) if _from_package() else real['RLock'](*a, **k)
    _th.Lock = Lock
    _th.RLock = RLock


def install_before_import():
    global _installed
    if _installed:
        return
    assert 'smartquery' not in sys.modules, 'seams must be installed before smartquery is imported'
    _install_entropy()
    _install_regex()
    _install_clock()
    _install_locks()
    _installed = True
