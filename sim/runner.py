"""Batch runner: seeded runs on all cores, violation shrinking, replay files, known findings, evidence.

Exit codes of a check: 0 = held on everything explored (known findings printed), 1 = VIOLATION, 2 = HARNESS-ERROR.
"""
import collections
import concurrent.futures
import faulthandler
import importlib
import json
import multiprocessing
import os
import subprocess
import sys
import time
import traceback

from . import canon
from .rng import run_seed
from .seams import SimKill, SimDeadlock, RunTimeout, RunTooBig

VERIF = os.path.dirname(os.path.dirname(os.path.abspath(__file__)))
DEFAULT_SEED = 20260926
KEEP_DIGESTS = False     # per-run event-log digests are only collected by the determinism self-test
PROPS = ('C01', 'C02', 'C03', 'C04', 'C05', 'C07', 'C09', 'C10', 'C11', 'C12', 'C13', 'C14', 'C16', 'C17',
         'C18', 'C19')


class Violation(Exception):
    def __init__(self, kind, detail, key=None, step=None):
        super().__init__('%s: %s' % (kind, detail))
        self.kind = kind
        self.detail = detail
        self.key = key or {'kind': kind}
        self.step = step

    def record(self):
        return {'kind': self.kind, 'step': self.step, 'detail': canon.norm_msg(str(self.detail))[:600],
                'key': self.key}


def load_known():
    p = os.path.join(VERIF, 'known_findings.json')
    if not os.path.exists(p):
        return []
    with open(p) as f:
        data = json.load(f)
    return [e for e in data.get('findings', [])]


def key_matches(entry_key, vkey):
    return all(vkey.get(k) == v for k, v in entry_key.items())


class Ctx:
    """Per-run context handed to a property's execute()."""

    def __init__(self, prop_id, known):
        self.prop_id = prop_id
        self.known = [e for e in known if e['property'] == prop_id]
        self.stats = collections.Counter()
        self.events = []
        self.nontrivial = False
        self.step = None
        self.known_hits = collections.Counter()
        self.states = set()
        self.trigrams = set()
        self._kinds = []

    def report(self, kind, detail, key=None, step=None):
        """A violation: tolerated (counted) if it is a listed known finding, raised otherwise."""
        v = Violation(kind, detail, key, self.step if step is None else step)
        for e in self.known:
            if key_matches(e['key'], v.key):
                self.known_hits[e['id']] += 1
                return False
        raise v

    def fault(self, name, n=1):
        self.stats['fault:' + name] += n

    def probe(self, name, n=1):
        self.stats['probe:' + name] += n

    def event(self, *parts):
        self.events.append(parts)

    def op_kind(self, kind):
        self._kinds.append(kind)
        if len(self._kinds) >= 3:
            self.trigrams.add(canon.digest(self._kinds[-3:])[:8])

    def state(self, obj_digest):
        self.states.add(obj_digest[:10])


def get_prop(prop_id):
    prop = importlib.import_module('sim.props.' + prop_id.lower())
    from . import boot
    if boot._booted:
        boot.set_builtin_wrappers(bool(getattr(prop, 'NEEDS_BUILTIN_WRAPPERS', False)))
    return prop


def run_case(prop, case, known):
    """Execute one case. Returns (violation-record|None, ctx, harness_error|None)."""
    ctx = Ctx(prop.ID, known)
    try:
        from . import boot
        boot.reset_run_state()
        prop.execute(case, ctx)
        return None, ctx, None
    except Violation as v:
        return v.record(), ctx, None
    except SimKill:
        return None, ctx, 'SimKill escaped the simulated call:\n' + traceback.format_exc()
    except RunTooBig:
        ctx.stats['run_ended_data_blowup'] += 1
        return None, ctx, None
    except SimDeadlock as e:
        # a call into the library would never return (lock seam): no result, no error - whatever the property
        # demands of the call's outcome is not delivered
        return Violation('call_blocks_forever', 'step %s: %s' % (ctx.step, e), {'kind': 'call_blocks_forever'}, ctx.step).record(), ctx, None
    except Exception:
        return None, ctx, traceback.format_exc()


def same_violation(a, b):
    return a is not None and b is not None and a['kind'] == b['kind'] and a['key'] == b['key']


# ------------------------------------------------------------------------------------ worker


def _on_alarm(signum, frame):
    raise RunTimeout()


def _worker(args):
    prop_id, master, tier, start, stop, wall_cap = args
    import signal
    from . import boot
    boot.boot()
    try:
        signal.signal(signal.SIGALRM, _on_alarm)
        soft = True
    except Exception:
        soft = False
    from . import shrink
    prop = get_prop(prop_id)
    known = load_known()
    out = {'runs': 0, 'ops': 0, 'stats': collections.Counter(), 'nontrivial': set(), 'violations': [],
           'harness': [], 'samples': [], 'known_hits': collections.Counter(), 'states': set(),
           'trigrams': set(), 'digests': [], 'cases': set()}
    for i in range(start, stop):
        faulthandler.dump_traceback_later(wall_cap, exit=True)
        try:
            seed = run_seed(master, prop_id, i)
            if soft:
                signal.setitimer(signal.ITIMER_REAL, max(5.0, wall_cap * 0.6))
            try:
                case = prop.generate(seed, tier)
            except Exception:
                out['harness'].append({'run': i, 'seed': seed, 'error': 'generator failed:\n' + traceback.format_exc()[-1500:]})
                if len(out['harness']) > 3:
                    break
                continue
            vio, ctx, herr = run_case(prop, case, known)
            out['runs'] += 1
            out['ops'] += len(case.get('ops', ())) or 1
            out['stats'].update(ctx.stats)
            out['known_hits'].update(ctx.known_hits)
            out['states'] |= ctx.states
            out['trigrams'] |= ctx.trigrams
            cd = canon.digest(case)
            out['cases'].add(cd[:12])
            if ctx.nontrivial:
                out['nontrivial'].add(cd[:12])
            if KEEP_DIGESTS:
                out['digests'].append((i, canon.digest(ctx.events)))
            if len(out['samples']) < 1 and ctx.nontrivial:
                try:
                    out['samples'].append(prop.sample(case) if hasattr(prop, 'sample') else case)
                except Exception:
                    out['samples'].append(case)
            if herr:
                out['harness'].append({'run': i, 'seed': seed, 'error': herr[-1500:]})
                if len(out['harness']) > 3:
                    break
            if vio:
                faulthandler.cancel_dump_traceback_later()
                faulthandler.dump_traceback_later(max(wall_cap, 120), exit=True)
                small, svio, tried = shrink.shrink(prop, case, vio, known)
                out['violations'].append({'run': i, 'seed': seed, 'case': small, 'violation': svio,
                                          'original_ops': len(case.get('ops', ())),
                                          'shrunk_ops': len(small.get('ops', ())), 'shrink_execs': tried})
                if len(out['violations']) >= 2:
                    break
        except RunTimeout:
            out['harness'].append({'run': i, 'seed': run_seed(master, prop_id, i),
                                   'error': 'run exceeded its soft wall cap (%.0f s):\n%s' % (wall_cap * 0.6, traceback.format_exc()[-3000:])})
            if len(out['harness']) > 2:
                break
        finally:
            if soft:
                signal.setitimer(signal.ITIMER_REAL, 0)
            faulthandler.cancel_dump_traceback_later()
    return out


def _chunks(n, workers, per=None):
    per = per or max(1, min(200, n // (workers * 4) or 1))
    return [(a, min(n, a + per)) for a in range(0, n, per)]


def batch(prop_id, tier, master, workers=None, n_runs=None, wall_cap=60):
    prop = get_prop(prop_id)
    n = n_runs if n_runs is not None else prop.TIERS[tier]
    workers = workers or min(16, os.cpu_count() or 1)
    agg = {'runs': 0, 'ops': 0, 'stats': collections.Counter(), 'nontrivial': set(), 'violations': [],
           'harness': [], 'samples': [], 'known_hits': collections.Counter(), 'states': set(),
           'trigrams': set(), 'digests': [], 'cases': set()}
    ctxmp = multiprocessing.get_context('fork')
    tasks = [(prop_id, master, tier, a, b, wall_cap) for a, b in _chunks(n, workers)]
    t0 = time.time()
    if workers == 1:
        results = map(_worker, tasks)
        for r in results:
            _merge(agg, r)
    else:
        with concurrent.futures.ProcessPoolExecutor(max_workers=workers, mp_context=ctxmp) as ex:
            futs = [ex.submit(_worker, t) for t in tasks]
            try:
                for f in concurrent.futures.as_completed(futs, timeout=max(600, wall_cap * 4) if tier == 'quick' else None):
                    _merge(agg, f.result())
                    if len(agg['violations']) >= 3 or len(agg['harness']) >= 3:
                        for g in futs:
                            g.cancel()
                        break
            except concurrent.futures.process.BrokenProcessPool:
                agg['harness'].append({'run': None, 'seed': None,
                                       'error': 'a worker process died (hang watchdog or crash); see stderr'})
            except concurrent.futures.TimeoutError:
                agg['harness'].append({'run': None, 'seed': None, 'error': 'batch wall-clock timeout'})
    agg['wall_s'] = time.time() - t0
    agg['n_planned'] = n
    return agg


def _merge(agg, r):
    agg['runs'] += r['runs']
    agg['ops'] += r['ops']
    agg['stats'].update(r['stats'])
    agg['known_hits'].update(r['known_hits'])
    for k in ('nontrivial', 'states', 'trigrams', 'cases'):
        agg[k] |= r[k]
    agg['violations'].extend(r['violations'])
    agg['harness'].extend(r['harness'])
    agg['digests'].extend(r['digests'])
    if len(agg['samples']) < 3:
        agg['samples'].extend(r['samples'][:1])


# ------------------------------------------------------------------------------------ known findings
def confirm_known(prop_id):
    """Re-run the stored repro history of every listed finding of this property. Returns list of
    (entry, reproduced: bool)."""
    out = []
    known = load_known()
    prop = get_prop(prop_id)
    for e in known:
        if e['property'] != prop_id:
            continue
        repro = e.get('repro')
        ok = None
        if repro:
            path = os.path.join(VERIF, repro)
            with open(path) as f:
                rf = json.load(f)
            # execute without the known list so that the finding surfaces as a violation
            vio, ctx, herr = run_case(prop, rf['case'], [])
            ok = bool(vio) and key_matches(e['key'], vio['key'])
        out.append((e, ok))
    return out


# ------------------------------------------------------------------------------------ evidence
def write_evidence(prop, tier, master, agg, extra_cov=None, n_viol=0):
    stats = agg['stats']
    faults = {k[6:]: v for k, v in sorted(stats.items()) if k.startswith('fault:')}
    probes = {k[6:]: v for k, v in sorted(stats.items()) if k.startswith('probe:')}
    other = {k: v for k, v in sorted(stats.items()) if not k.startswith(('fault:', 'probe:'))}
    wall = max(agg['wall_s'], 1e-6)
    expected_probes = getattr(prop, 'REACH_PROBES', ())
    warnings = [p for p in expected_probes if probes.get(p, 0) == 0]
    cov = {
        'evaluations': int(agg['runs']),
        'distinct_nontrivial': int(len(agg['nontrivial'])),
        'rule': prop.RULE,
        'samples': agg['samples'][:3] or [{'note': 'no non-trivial sample recorded'}],
        'runs': int(agg['runs']),
        'runs_planned': int(agg['n_planned']),
        'distinct_cases': int(len(agg['cases'])),
        'ops': int(agg['ops']),
        'runs_per_hour': int(agg['runs'] / wall * 3600),
        'seeds_per_hour': int(agg['runs'] / wall * 3600),
        'faults_fired': faults,
        'reach_probes': probes,
        'reach_warnings': warnings,
        'counters': other,
        'distinct_states': int(len(agg['states'])),
        'distinct_op_trigrams': int(len(agg['trigrams'])),
        'known_finding_hits': dict(agg['known_hits']),
        'simulated_time': getattr(prop, 'SIM_TIME', 'logical: %d operations; no clock in this property' % agg['ops']),
        'real_components': list(getattr(prop, 'REAL', ['smartquery.*', 'smartquery.ply', 'decimal', 'copy'])),
        'stub_components': list(getattr(prop, 'STUB', [])),
        'harness_errors': len(agg['harness']),
    }
    if prop.LEVEL == 'other':
        cov['explanation'] = getattr(prop, 'EXPLANATION', prop.RULE)
    if extra_cov:
        cov.update(extra_cov)
    ev = {
        'property_id': prop.ID, 'tier': tier, 'seed': int(master), 'level': prop.LEVEL,
        'coverage': cov, 'assumptions': list(getattr(prop, 'ASSUMPTIONS', [])),
        'wall_s': round(agg['wall_s'], 3), 'violations': int(n_viol),
    }
    from .boot import REPO
    evdir = os.path.join(VERIF, 'evidence')
    if os.path.realpath(REPO) != '/repo':
        # a run against a scratch copy (SQ_REPO, the mutation self-tests): /verif/evidence only ever describes /repo
        evdir = os.path.join(REPO, '.verif_evidence')
    os.makedirs(evdir, exist_ok=True)
    path = os.path.join(evdir, prop.ID + '.json')
    tmp = path + '.tmp'
    with open(tmp, 'w') as f:
        json.dump(ev, f, indent=1, default=str)
        f.write('\n')
    os.replace(tmp, path)
    return path


# ------------------------------------------------------------------------------------ replay
def repo_head():
    from .boot import REPO
    try:
        head = subprocess.run(['git', '-C', REPO, 'rev-parse', 'HEAD'], capture_output=True, text=True, timeout=20).stdout.strip()
        dirty = bool(subprocess.run(['git', '-C', REPO, 'status', '--porcelain', '--untracked-files=no'],
                                    capture_output=True, text=True, timeout=20).stdout.strip())
        return head, dirty
    except Exception:
        return None, None


def write_replay(prop_id, master, v):
    os.makedirs(os.path.join(VERIF, 'replays'), exist_ok=True)
    head, dirty = repo_head()
    rf = {'format': 1, 'property': prop_id, 'seed': int(master), 'run': v['run'], 'run_seed': v['seed'],
          'case': v['case'], 'violation': v['violation'], 'original_ops': v['original_ops'],
          'shrunk_ops': v['shrunk_ops'], 'shrink_execs': v.get('shrink_execs'),
          'repo_head': head, 'dirty': dirty}
    path = os.path.join(VERIF, 'replays', '%s-%d-%d.json' % (prop_id, int(master), v['run']))
    with open(path, 'w') as f:
        json.dump(rf, f, indent=1)
        f.write('\n')
    return path


def replay(path, quiet=False):
    """Re-execute a replay file in this (fresh) process. Exit status 1 and a VIOLATION line if it reproduces."""
    from . import boot
    boot.boot()
    with open(path) as f:
        rf = json.load(f)
    prop = get_prop(rf['property'])
    vio, ctx, herr = run_case(prop, rf['case'], [])
    if herr:
        print('HARNESS-ERROR replaying %s\n%s' % (path, herr))
        return 2
    if vio and (rf.get('violation') is None or same_violation(vio, rf['violation'])):
        if not quiet:
            print(json.dumps(vio, indent=1))
        print('VIOLATION property=%s replay=%s' % (rf['property'], path))
        return 1
    if vio:
        print('replay produced a different violation: %s' % json.dumps(vio))
        print('VIOLATION property=%s replay=%s' % (rf['property'], path))
        return 1
    print('replay of %s: no violation (property held on this history)' % path)
    return 0


def verify_replay_fresh(path):
    """Replay in a fresh interpreter; returns True if the same violation reproduces."""
    env = dict(os.environ)
    env['PYTHONHASHSEED'] = '0'
    r = subprocess.run([sys.executable, '-m', 'sim.cli', '--replay', path, '--quiet'], cwd=VERIF, env=env,
                       capture_output=True, text=True, timeout=600)
    return r.returncode == 1 and 'VIOLATION property=' in r.stdout, r.stdout[-2000:] + r.stderr[-2000:]


# ------------------------------------------------------------------------------------ check driver
def check(prop_id, tier, master, workers=None, n_runs=None):
    from . import boot
    boot.boot()
    prop = get_prop(prop_id)
    t0 = time.time()
    # known findings first: each listed finding is re-confirmed from its stored history
    known_lines = []
    for e, ok in confirm_known(prop_id):
        if ok is False:
            print('NOTE: listed finding %s no longer reproduces from %s (repaired?)' % (e['id'], e.get('repro')))
        else:
            known_lines.append('KNOWN-FINDING: property=%s %s' % (prop_id, e['what']))
    extra = None
    if hasattr(prop, 'pre_batch'):
        extra = prop.pre_batch(tier, master)
    agg = batch(prop_id, tier, master, workers=workers, n_runs=n_runs,
                wall_cap=getattr(prop, 'WALL_CAP', 60))
    agg['wall_s'] = time.time() - t0
    status = 0
    lines = []
    for v in agg['violations']:
        path = write_replay(prop_id, master, v)
        ok, out = verify_replay_fresh(path)
        if ok:
            lines.append('VIOLATION property=%s replay=%s' % (prop_id, path))
            lines.append('  ' + json.dumps(v['violation'])[:700])
            status = 1
        else:
            agg['harness'].append({'run': v['run'], 'seed': v['seed'],
                                   'error': 'violation did not reproduce from its replay file %s:\n%s' % (path, out)})
    if hasattr(prop, 'post_batch'):
        more = prop.post_batch(agg)
        if more:
            extra = dict(extra or {}, **more)
    write_evidence(prop, tier, master, agg, extra_cov=extra, n_viol=len([l for l in lines if l.startswith('VIOLATION')]))
    for l in known_lines:
        print(l)
    print('%s tier=%s seed=%d runs=%d ops=%d nontrivial=%d wall=%.1fs known_hits=%s' % (
        prop_id, tier, master, agg['runs'], agg['ops'], len(agg['nontrivial']), agg['wall_s'],
        dict(agg['known_hits'])))
    for l in lines:
        print(l)
    if agg['harness'] and status == 0:
        for h in agg['harness'][:3]:
            print('HARNESS-ERROR property=%s run=%s seed=%s\n%s' % (prop_id, h['run'], h['seed'], h['error']))
        status = 2
    elif agg['harness']:
        for h in agg['harness'][:3]:
            print('HARNESS-ERROR (in addition) run=%s\n%s' % (h['run'], h['error']))
    if status == 0 and agg['runs'] < agg['n_planned']:
        print('HARNESS-ERROR property=%s only %d of %d planned runs completed' % (prop_id, agg['runs'], agg['n_planned']))
        status = 2
    return status
