"""Neutral syntax tree (JSON arrays), renderer to SmartQuery source, host-value specs.

Nodes (first element is the tag):
  ["num", text] ["str", value] ["bool", b] ["none"] ["name", id]
  ["bin", op, l, r]   op in + - * / ** == != < <= > >= in notin and or
  ["neg", x] ["not", x] ["if", then, cond, else]
  ["list", [items]] ["dict", [[k, v], ...]]
  ["index", c, k] ["slice", c, shape, a, b]     shape in ":" "a:b" "a:" ":b" "a::" ":b:" "::s"
  ["call", fname, [args], sugar]                sugar in plain method pipe pipebare
  ["lambda", [params], body]
  ["assign", id, e] ["short", id, op, e] ["setitem", c, k, e] ["setitemop", c, k, op, e] ["del", c, k]
  ["block", [stmts]]

The renderer fully parenthesises every compound subexpression so that no verdict depends on the operator
table (C06 is not applicable and must not leak into other checks).
"""
from decimal import Decimal

from .rng import RealRandom

BIN_TEXT = {'notin': 'not in'}
RESERVED = {'and', 'or', 'in', 'not', 'if', 'else', 'True', 'False', 'None', 'del',
            'for', 'while', 'break', 'continue', 'def', 'raise', 'elif'}
STMT_TAGS = ('assign', 'short', 'setitem', 'setitemop', 'del', 'block')
SLICE_SHAPES = (':', 'a:b', 'a:', ':b', 'a::', ':b:', '::s')


# ----------------------------------------------------------------------------- constructors
def num(x):
    return ['num', str(x)]


def s(x):
    return ['str', x]


def name(x):
    return ['name', x]


def call(f, args, sugar='plain'):
    return ['call', f, list(args), sugar]


def block(stmts):
    return ['block', list(stmts)]


# ----------------------------------------------------------------------------- rendering
def render_string(v: str, r=None) -> str:
    if '\\' in v:
        # only raw strings can carry a backslash; they cannot carry their own quote or a newline
        if '\n' in v or v.endswith('\\'):
            raise ValueError('unrenderable string')
        if '"' not in v:
            return 'r"' + v + '"'
        if "'" not in v:
            return "r'" + v + "'"
        raise ValueError('unrenderable string')
    q = '"'
    if r is not None and r.random() < 0.3:
        q = "'"
    if r is not None and '\n' not in v and '\t' not in v and q not in v and r.random() < 0.1:
        return 'r' + q + v + q
    out = v.replace('\n', '\\n').replace('\t', '\\t')
    if q == '"':
        out = out.replace('"', '\\"')
    else:
        out = out.replace("'", "\\'")
    return q + out + q


def _toks(t, r, out, top=False):
    """Append tokens of expression tree t to out. Brackets are tokens '(' ')' '[' ']' '{' '}'."""
    tag = t[0]
    if tag == 'num':
        out.append(t[1])
    elif tag == 'str':
        out.append(('S', render_string(t[1], r)))
    elif tag == 'bool':
        out.append('True' if t[1] else 'False')
    elif tag == 'none':
        out.append('None')
    elif tag == 'name':
        out.append(t[1])
    elif tag == 'bin':
        out.append('(')
        _sub(t[2], r, out)
        out.append(BIN_TEXT.get(t[1], t[1]))
        _sub(t[3], r, out)
        out.append(')')
    elif tag == 'neg':
        out.append('(')
        out.append('-')
        _sub(t[1], r, out)
        out.append(')')
    elif tag == 'not':
        out.append('(')
        out.append('not')
        _sub(t[1], r, out)
        out.append(')')
    elif tag == 'if':
        out.append('(')
        _sub(t[1], r, out)
        out.append('if')
        _sub(t[2], r, out)
        out.append('else')
        _sub(t[3], r, out)
        out.append(')')
    elif tag == 'list':
        out.append('[')
        for i, x in enumerate(t[1]):
            if i:
                out.append(',')
            _sub(x, r, out)
        if t[1] and r is not None and r.random() < 0.1:
            out.append(',')     # trailing comma in a list literal (accepted by the grammar, tested upstream)
        out.append(']')
    elif tag == 'dict':
        out.append('{')
        for i, (k, v) in enumerate(t[1]):
            if i:
                out.append(',')
            _sub(k, r, out)
            out.append(':')
            _sub(v, r, out)
        out.append('}')
    elif tag == 'index':
        _sub(t[1], r, out, force=True)
        out.append('[')
        _sub(t[2], r, out)
        out.append(']')
    elif tag == 'slice':
        _sub(t[1], r, out, force=True)
        out.append('[')
        shape = t[2]
        a, b = t[3], t[4]
        if shape == ':':
            out.append(':')
        elif shape == 'a:b':
            _sub(a, r, out); out.append(':'); _sub(b, r, out)
        elif shape == 'a:':
            _sub(a, r, out); out.append(':')
        elif shape == ':b':
            out.append(':'); _sub(a, r, out)
        elif shape == 'a::':
            _sub(a, r, out); out.append(':'); out.append(':')
        elif shape == ':b:':
            out.append(':'); _sub(a, r, out); out.append(':')
        elif shape == '::s':
            out.append(':'); out.append(':'); _sub(a, r, out)
        else:
            raise ValueError(shape)
        out.append(']')
    elif tag == 'call':
        f, args, sugar = t[1], t[2], t[3] if len(t) > 3 else 'plain'
        if sugar == 'plain' or not args:
            out.append(f)
            out.append('(')
            for i, x in enumerate(args):
                if i:
                    out.append(',')
                _sub(x, r, out)
            out.append(')')
        elif sugar == 'method':
            out.append('(')
            _sub(args[0], r, out, force=True)
            out.append('.')
            out.append(f)
            out.append('(')
            for i, x in enumerate(args[1:]):
                if i:
                    out.append(',')
                _sub(x, r, out)
            out.append(')')
            out.append(')')
        elif sugar in ('pipe', 'pipebare'):
            out.append('(')
            _sub(args[0], r, out, force=True)
            out.append('|')
            out.append(f)
            if len(args) > 1:
                out.append('(')
                for i, x in enumerate(args[1:]):
                    if i:
                        out.append(',')
                    _sub(x, r, out)
                out.append(')')
            out.append(')')
        else:
            raise ValueError(sugar)
    elif tag == 'lambda':
        params, body = t[1], t[2]
        out.append('(')
        if len(params) == 1:
            out.append(params[0])
        else:
            out.append('(')
            for i, p in enumerate(params):
                if i:
                    out.append(',')
                out.append(p)
            out.append(')')
        out.append('=>')
        _sub(body, r, out, force=True)
        out.append(')')
    else:
        raise ValueError('not an expression: %r' % (tag,))


_ATOMS = ('num', 'str', 'bool', 'none', 'name')


def _sub(t, r, out, force=False):
    """A subexpression: atoms may go bare (sometimes still parenthesised), compounds parenthesise themselves.
    list/dict/call-plain/index/slice are self-delimiting but are wrapped when `force` asks for it."""
    tag = t[0]
    if tag in _ATOMS:
        if tag == 'name' and force:
            force = r is not None and r.random() < 0.4
        if force or (r is not None and r.random() < 0.15):
            out.append('('); _toks(t, r, out); out.append(')')
        else:
            _toks(t, r, out)
        return
    if tag in ('list', 'dict', 'index', 'slice') or (tag == 'call' and (len(t) < 4 or t[3] == 'plain' or not t[2])):
        if force or (r is not None and r.random() < 0.3):
            out.append('('); _toks(t, r, out); out.append(')')
        else:
            _toks(t, r, out)
        return
    _toks(t, r, out)


def _stmt_toks(t, r, out):
    tag = t[0]
    if tag == 'assign':
        out.append(t[1]); out.append('='); _sub(t[2], r, out)
    elif tag == 'short':
        out.append(t[1]); out.append(t[2]); _sub(t[3], r, out)
    elif tag == 'setitem':
        _sub(t[1], r, out, force=True); out.append('['); _sub(t[2], r, out); out.append(']')
        out.append('='); _sub(t[3], r, out)
    elif tag == 'setitemop':
        _sub(t[1], r, out, force=True); out.append('['); _sub(t[2], r, out); out.append(']')
        out.append(t[3]); _sub(t[4], r, out)
    elif tag == 'del':
        out.append('del'); _sub(t[1], r, out, force=True); out.append('['); _sub(t[2], r, out); out.append(']')
    else:
        _sub(t, r, out)


# ----------------------------------------------------------------------------- minimal parenthesisation
# The documented operator table (smartquery/lexer.py `precedence`, lowest first) and the one construct without an entry
# (if-else: binds loosest; its else-branch and a lambda body extend as far to the right as they can):
#   or < and < comparisons/in (non-associative) < + - < * / < ** (right) < | < . < not < unary - < [ ]
_LEVEL = {'or': (1, 'left'), 'and': (2, 'left'),
          '==': (3, 'non'), '!=': (3, 'non'), '>': (3, 'non'), '<': (3, 'non'), '>=': (3, 'non'), '<=': (3, 'non'),
          'in': (3, 'non'), 'notin': (3, 'non'),
          '+': (4, 'left'), '-': (4, 'left'), '*': (5, 'left'), '/': (5, 'left'), '**': (6, 'right')}
_P_PIPE, _P_DOT, _P_NOT, _P_NEG, _P_IDX, _P_PRIMARY = 7, 8, 9, 10, 11, 100


def _prec(t):
    tag = t[0]
    if tag == 'bin':
        return _LEVEL[t[1]][0]
    if tag == 'if':
        return 0
    if tag == 'lambda':
        return -1
    if tag == 'neg':
        return _P_NEG
    if tag == 'not':
        return _P_NOT
    if tag in ('index', 'slice'):
        return _P_IDX
    if tag == 'call':
        sugar = t[3] if len(t) > 3 else 'plain'
        if sugar == 'plain' or not t[2]:
            return _P_PRIMARY
        return _P_DOT if sugar == 'method' else _P_PIPE
    return _P_PRIMARY


def _m(t, r, out, need):
    """Expression t where the context needs binding strength >= need (-1: delimited on both sides, anything goes)."""
    if _prec(t) < need or r.random() < 0.05:
        out.append('(')
        _m_inner(t, r, out)
        out.append(')')
    else:
        _m_inner(t, r, out)


def _m_args(args, r, out, call=False):
    for i, x in enumerate(args):
        if i:
            out.append(',')
        _m(x, r, out, -1)
    if call and args and r.random() < 0.08:
        out.append(',')     # trailing comma after the last argument of a call (accepted by the grammar for every call form)


def _m_inner(t, r, out):
    tag = t[0]
    if tag in _ATOMS or tag in ('bool', 'none'):
        _toks(t, r, out)
    elif tag == 'bin':
        op = t[1]
        lv, assoc = _LEVEL[op]
        if op == 'notin':
            ln, rn = _P_NEG, lv + 1       # the `not` of `not in` is looked at with the strength of unary not
        elif assoc == 'left':
            ln, rn = lv, lv + 1
        elif assoc == 'right':
            ln, rn = lv + 1, lv
        else:
            ln, rn = lv + 1, lv + 1
        _m(t[2], r, out, ln)
        out.append(BIN_TEXT.get(op, op))
        _m(t[3], r, out, rn)
    elif tag == 'neg':
        out.append('-')
        _m(t[1], r, out, _P_NEG)
    elif tag == 'not':
        out.append('not')
        _m(t[1], r, out, _P_NOT)
    elif tag == 'if':
        _m(t[1], r, out, 1)
        out.append('if')
        _m(t[2], r, out, 1)
        out.append('else')
        _m(t[3], r, out, 0)
    elif tag == 'list':
        out.append('[')
        _m_args(t[1], r, out)
        if t[1] and r.random() < 0.1:
            out.append(',')
        out.append(']')
    elif tag == 'dict':
        out.append('{')
        for i, (k, v) in enumerate(t[1]):
            if i:
                out.append(',')
            _m(k, r, out, 0)
            out.append(':')
            _m(v, r, out, -1)
        out.append('}')
    elif tag == 'index':
        _m(t[1], r, out, _P_IDX)
        out.append('[')
        _m(t[2], r, out, -1)
        out.append(']')
    elif tag == 'slice':
        _m(t[1], r, out, _P_IDX)
        out.append('[')
        shape = t[2]
        a, b = t[3], t[4]
        if shape == ':':
            out.append(':')
        elif shape == 'a:b':
            _m(a, r, out, 0); out.append(':'); _m(b, r, out, 0)
        elif shape == 'a:':
            _m(a, r, out, 0); out.append(':')
        elif shape == ':b':
            out.append(':'); _m(a, r, out, 0)
        elif shape == 'a::':
            _m(a, r, out, 0); out.append(':'); out.append(':')
        elif shape == ':b:':
            out.append(':'); _m(a, r, out, 0); out.append(':')
        elif shape == '::s':
            out.append(':'); out.append(':'); _m(a, r, out, 0)
        else:
            raise ValueError(shape)
        out.append(']')
    elif tag == 'call':
        f, args, sugar = t[1], t[2], t[3] if len(t) > 3 else 'plain'
        if sugar == 'plain' or not args:
            out.append(f)
            out.append('(')
            _m_args(args, r, out, call=True)
            out.append(')')
        elif sugar == 'method':
            _m(args[0], r, out, _P_DOT)
            out.append('.')
            out.append(f)
            out.append('(')
            _m_args(args[1:], r, out, call=True)
            out.append(')')
        elif sugar in ('pipe', 'pipebare'):
            _m(args[0], r, out, _P_PIPE)
            out.append('|')
            out.append(f)
            if len(args) > 1:
                out.append('(')
                _m_args(args[1:], r, out, call=True)
                out.append(')')
        else:
            raise ValueError(sugar)
    elif tag == 'lambda':
        params, body = t[1], t[2]
        if len(params) == 1:
            out.append(params[0])
        else:
            out.append('(')
            for i, p in enumerate(params):
                if i:
                    out.append(',')
                out.append(p)
            out.append(')')
        out.append('=>')
        _m(body, r, out, -1)
    else:
        raise ValueError('not an expression: %r' % (tag,))


def _m_stmt(t, r, out):
    tag = t[0]
    if tag == 'assign':
        out.append(t[1]); out.append('='); _m(t[2], r, out, -1)
    elif tag == 'short':
        out.append(t[1]); out.append(t[2]); _m(t[3], r, out, -1)
    elif tag == 'setitem':
        _m(t[1], r, out, _P_IDX); out.append('['); _m(t[2], r, out, -1); out.append(']')
        out.append('='); _m(t[3], r, out, -1)
    elif tag == 'setitemop':
        _m(t[1], r, out, _P_IDX); out.append('['); _m(t[2], r, out, -1); out.append(']')
        out.append(t[3]); _m(t[4], r, out, -1)
    elif tag == 'del':
        out.append('del'); _m(t[1], r, out, _P_IDX); out.append('['); _m(t[2], r, out, -1); out.append(']')
    else:
        _m(t, r, out, -1)


def _join(tokens, r):
    """Join tokens with spaces; optional extra blanks / line breaks inside brackets when styled."""
    parts = []
    depth = 0
    for i, tk in enumerate(tokens):
        text = tk[1] if isinstance(tk, tuple) else tk
        if i:
            sep = ' '
            if r is not None:
                x = r.random()
                if x < 0.08:
                    sep = '  '
                elif x < 0.12:
                    sep = ' \t'
                elif x < 0.17 and depth > 0:
                    sep = '\n' if r.random() < 0.7 else '\r\n'
                elif x < 0.45:
                    prev = tokens[i - 1]
                    ptext = prev[1] if isinstance(prev, tuple) else prev
                    # drop the blank where both neighbours are punctuation-safe
                    if _glue_ok(ptext, text):
                        sep = ''
            parts.append(sep)
        parts.append(text)
        if not isinstance(tk, tuple):
            if tk in ('(', '[', '{'):
                depth += 1
            elif tk in (')', ']', '}'):
                depth -= 1
    return ''.join(parts)


_PUNCT_L = {'(', '[', '{', ','}
_PUNCT_R = {')', ']', '}', ','}


def _glue_ok(a, b):
    # conservative: only glue brackets/commas to their neighbours; never two operators, never word chars
    return (a in _PUNCT_L and b not in ('=', '=>')) or (b in _PUNCT_R)


def render(tree, style=0) -> str:
    """Render a program (block / single statement / expression). style=0: canonical layout."""
    r = RealRandom(style) if style else None
    stmts = tree[1] if tree[0] == 'block' else [tree]
    lines = []
    # 4 styles in 10 leave out every pair of parentheses the operator table makes redundant
    minimal = r is not None and r.random() < 0.4
    for st in stmts:
        out = []
        if minimal:
            _m_stmt(st, r, out)
        else:
            _stmt_toks(st, r, out)
        line = _join(out, r)
        if r is not None and r.random() < 0.08:
            line += '  # ' + r.choice(['c', 'x = 1', '"q"', 'del'])
        lines.append(line)
    if r is None:
        return '\n'.join(lines)
    res = []
    for i, line in enumerate(lines):
        if i:
            x = r.random()
            sep = '\n' if x < 0.55 else ('\r\n' if x < 0.7 else ('; ' if x < 0.9 else ';'))
            if '#' in lines[i - 1] and sep[0] == ';':
                sep = '\n'      # a comment runs to the end of the line
            if r.random() < 0.12:
                sep = sep + r.choice(['\n', ' \n', '# note\n', ';', '\t\n'])
            res.append(sep)
        elif r.random() < 0.08:
            res.append(r.choice(['\n', '  ', '\n  ', '# head\n']))
        res.append(line)
    x = r.random()
    if x < 0.1:
        res.append(r.choice(['\n', '  ', ' \n ', '\t']))
    elif x < 0.2 and '#' not in lines[-1]:
        # blank statements after the last real one: the last LINE with a statement still gives the result
        res.append(r.choice([';', ' ;', ';;', '\n# end', ';\n', '\n\n# the end\n']))
    return ''.join(res)


# ----------------------------------------------------------------------------- identifier occurrences
def names_in(tree):
    """Identifier occurrences in source order (what list_names must yield for the rendered text)."""
    out = []
    _names(tree, out)
    return out


def _names(t, out):
    tag = t[0]
    if tag in ('num', 'str', 'bool', 'none'):
        return
    if tag == 'name':
        out.append(t[1])
    elif tag == 'bin':
        _names(t[2], out); _names(t[3], out)
    elif tag in ('neg', 'not'):
        _names(t[1], out)
    elif tag == 'if':
        _names(t[1], out); _names(t[2], out); _names(t[3], out)
    elif tag == 'list':
        for x in t[1]:
            _names(x, out)
    elif tag == 'dict':
        for k, v in t[1]:
            _names(k, out); _names(v, out)
    elif tag == 'index':
        _names(t[1], out); _names(t[2], out)
    elif tag == 'slice':
        _names(t[1], out)
        if t[3] is not None:
            _names(t[3], out)
        if t[4] is not None:
            _names(t[4], out)
    elif tag == 'call':
        f, args, sugar = t[1], t[2], t[3] if len(t) > 3 else 'plain'
        if sugar == 'plain' or not args:
            out.append(f)
            for x in args:
                _names(x, out)
        else:
            _names(args[0], out)
            out.append(f)
            for x in args[1:]:
                _names(x, out)
    elif tag == 'lambda':
        out.extend(t[1])
        _names(t[2], out)
    elif tag == 'assign':
        out.append(t[1]); _names(t[2], out)
    elif tag == 'short':
        out.append(t[1]); _names(t[3], out)
    elif tag == 'setitem':
        _names(t[1], out); _names(t[2], out); _names(t[3], out)
    elif tag == 'setitemop':
        _names(t[1], out); _names(t[2], out); _names(t[4], out)
    elif tag == 'del':
        _names(t[1], out); _names(t[2], out)
    elif tag == 'block':
        for x in t[1]:
            _names(x, out)
    else:
        raise ValueError(tag)


def tree_size(t):
    if not isinstance(t, list):
        return 0
    return 1 + sum(tree_size(x) for x in t[1:] if isinstance(x, list))


# ----------------------------------------------------------------------------- host value specs (JSON)
class HostInt(int):
    """What a host may well pass for an int: a subclass instance."""


def dec_value(spec, DecimalCls=Decimal):
    """JSON spec -> Python value the *host* supplies."""
    if spec is None or isinstance(spec, (bool, str)):
        return spec
    if isinstance(spec, int):
        return spec
    if isinstance(spec, list):
        return [dec_value(x, DecimalCls) for x in spec]
    if isinstance(spec, dict):
        if 'd' in spec:
            return DecimalCls(spec['d'])
        if 'i' in spec:
            return int(spec['i'])
        if 'isub' in spec:
            return HostInt(spec['isub'])            # an int subclass instance (money in cents, an id type ...)
        if 'ienum' in spec:
            import enum
            return enum.IntEnum('HostUnit', {'V': int(spec['ienum'])}).V
        if 'f' in spec:
            return float(spec['f'])
        if 'm' in spec:
            return {dec_value(k, DecimalCls): dec_value(v, DecimalCls) for k, v in spec['m']}
        if 'range' in spec:
            return list(range(int(spec['range'])))
        if 'drange' in spec:
            return {str(i): i for i in range(int(spec['drange']))}
        if 'ddrange' in spec:
            import collections
            return collections.defaultdict(int, {str(i): i for i in range(int(spec['ddrange']))})
        if 'rep' in spec:
            v, n = spec['rep']
            return [dec_value(v, DecimalCls) for _ in range(int(n))]
        if 'srep' in spec:
            v, n = spec['srep']
            return str(v) * int(n)
        if 't' in spec:
            return tuple(dec_value(x, DecimalCls) for x in spec['t'])
    raise ValueError('bad value spec %r' % (spec,))


def literal_of(spec):
    """A literal expression tree denoting (the language-level image of) a simple spec; None if not spellable."""
    if spec is None:
        return ['none']
    if isinstance(spec, bool):
        return ['bool', spec]
    if isinstance(spec, str):
        return ['str', spec]
    if isinstance(spec, int):
        return ['num', str(spec)] if spec >= 0 else ['neg', ['num', str(-spec)]]
    if isinstance(spec, list):
        items = [literal_of(x) for x in spec]
        return None if any(i is None for i in items) else ['list', items]
    if isinstance(spec, dict) and 'd' in spec:
        d = Decimal(spec['d'])
        if not d.is_finite() or 'E' in spec['d'].upper():
            return None
        return ['num', spec['d']] if not d.is_signed() else ['neg', ['num', spec['d'].lstrip('-')]]
    return None
