"""Delta debugging over a case's op list (+ property-specific simplifications) while the same violation
(kind and key) persists. A candidate that leaves the model's domain simply stops failing, so shrinking cannot
manufacture a false alarm."""
import copy
import time

from . import runner


def shrink(prop, case, vio, known, max_execs=400, max_s=40.0):
    t0 = time.time()
    tried = [0]
    best = copy.deepcopy(case)
    best_vio = vio

    def fails(c):
        if tried[0] >= max_execs or time.time() - t0 > max_s:
            return None
        tried[0] += 1
        v, ctx, herr = runner.run_case(prop, c, known)
        if herr or not runner.same_violation(v, vio):
            return None
        return v

    # 1. ddmin over ops
    ops = best.get('ops')
    if isinstance(ops, list) and len(ops) > 1:
        n = 2
        while len(ops) >= 2 and tried[0] < max_execs:
            chunk = max(1, len(ops) // n)
            reduced = False
            for i in range(0, len(ops), chunk):
                cand_ops = ops[:i] + ops[i + chunk:]
                if not cand_ops:
                    continue
                cand = dict(best, ops=cand_ops)
                v = fails(cand)
                if v:
                    best, best_vio, ops = cand, v, cand_ops
                    n = max(n - 1, 2)
                    reduced = True
                    break
            if not reduced:
                if chunk == 1:
                    break
                n = min(len(ops), n * 2)
    # 2. property-specific simplifications (each yields simpler candidate cases), to a fixpoint
    simp = getattr(prop, 'simplify', None)
    if simp:
        progress = True
        while progress and tried[0] < max_execs:
            progress = False
            for cand in simp(best):
                v = fails(cand)
                if v:
                    best, best_vio = cand, v
                    progress = True
                    break
    return best, best_vio, tried[0]


def simplify_trees(case, tree_paths):
    """Generic helper: for each op holding a program tree under key 'prog', yield cases with one statement
    dropped or one subtree replaced by a leaf."""
    ops = case.get('ops', [])
    for i, op in enumerate(ops):
        prog = op.get('prog')
        if not isinstance(prog, list):
            continue
        for cand_prog in tree_reductions(prog):
            new_ops = list(ops)
            new_ops[i] = dict(op, prog=cand_prog)
            yield dict(case, ops=new_ops)


LEAVES = (['num', '0'], ['num', '1'], ['str', ''], ['none'], ['list', []])


def tree_reductions(t):
    if not isinstance(t, list) or not t:
        return
    tag = t[0]
    if tag == 'block' and len(t[1]) > 1:
        for j in range(len(t[1])):
            yield ['block', t[1][:j] + t[1][j + 1:]]
    # replace children by leaves / hoist children
    for idx in range(1, len(t)):
        ch = t[idx]
        if isinstance(ch, list) and ch and isinstance(ch[0], str) and ch[0] not in ('num', 'none', 'bool'):
            if tag not in ('block',) and ch[0] not in ('assign', 'short', 'setitem', 'setitemop', 'del'):
                for leaf in LEAVES[:2]:
                    if ch != leaf:
                        yield t[:idx] + [leaf] + t[idx + 1:]
            for sub in tree_reductions(ch):
                yield t[:idx] + [sub] + t[idx + 1:]
        elif isinstance(ch, list) and ch and isinstance(ch[0], list):
            # list of subtrees (block stmts, list items, call args, dict pairs)
            for j, el in enumerate(ch):
                if tag in ('list',) and len(ch) > 0:
                    yield t[:idx] + [ch[:j] + ch[j + 1:]] + t[idx + 1:]
                if isinstance(el, list) and el and isinstance(el[0], str):
                    for sub in tree_reductions(el):
                        yield t[:idx] + [ch[:j] + [sub] + ch[j + 1:]] + t[idx + 1:]
