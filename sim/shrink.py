"""Delta debugging over a case's op list (+ property-specific simplifications) while the same violation
(kind and key) persists. A candidate that leaves the model's domain simply stops failing, so shrinking cannot
manufacture a false alarm."""
import copy
import time

from . import runner


def shrink(prop, case, vio, known, max_execs=400, max_s=40.0):
    t0 = time.time()
    tried = [0]
    best = copy.deepcopy(case)
    best_vio = vio

    def fails(c):
        if tried[0] >= max_execs or time.time() - t0 > max_s:
            return None
        tried[0] += 1
        v, ctx, herr = runner.run_case(prop, c, known)
        if herr or not runner.same_violation(v, vio):
            return None
        return v

    # 1. ddmin over ops
    ops = best.get('ops')
    if isinstance(ops, list) and len(ops) > 1:
        n = 2
        while len(ops) >= 2 and tried[0] < max_execs:
            chunk = max(1, len(ops) // n)
            reduced = False
            for i in range(0, len(ops), chunk):
                cand_ops = ops[:i] + ops[i + chunk:]
                if not cand_ops:
                    continue
                cand = dict(best, ops=cand_ops)
                v = fails(cand)
                if v:
                    best, best_vio, ops = cand, v, cand_ops
                    n = max(n - 1, 2)
                    reduced = True
                    break
            if not reduced:
                if chunk == 1:
                    break
                n = min(len(ops), n * 2)
    # 2. property-specific simplifications (each yields simpler candidate cases), to a fixpoint
    simp = getattr(prop, 'simplify', None)
    if simp:
        progress = True
        while progress and tried[0] < max_execs:
            progress = False
            for cand in simp(best):
                v = fails(cand)
                if v:
                    best, best_vio = cand, v
                    progress = True
                    break
    return best, best_vio, tried[0]


def simplify_trees(case, tree_paths):
    """Generic helper: for each op holding a program tree under key 'prog', yield cases with one statement
    dropped or one subtree replaced by a leaf."""
    ops = case.get('ops', [])
    for i, op in enumerate(ops):
        prog = op.get('prog')
        if not isinstance(prog, list):
            continue
        for cand_prog in tree_reductions(prog):
            new_ops = list(ops)
            new_ops[i] = dict(op, prog=cand_prog)
            yield dict(case, ops=new_ops)


LEAVES = (['num', '0'], ['num', '1'])
ATOMS = ('num', 'str', 'bool', 'none', 'name')
STMTS = ('assign', 'short', 'setitem', 'setitemop', 'del', 'block')
# tag -> (indices of expression children, index of a list-of-expressions child or None)
SCHEMA = {
    'bin': ((2, 3), None), 'neg': ((1,), None), 'not': ((1,), None), 'if': ((1, 2, 3), None),
    'list': ((), 1), 'index': ((1, 2), None), 'slice': ((1, 3, 4), None), 'call': ((), 2), 'lambda': ((2,), None),
    'assign': ((2,), None), 'short': ((3,), None), 'setitem': ((1, 2, 3), None), 'setitemop': ((1, 2, 4), None),
    'del': ((1, 2), None), 'block': ((), 1),
}


def tree_reductions(t):
    """Schema-aware one-step simplifications of a neutral tree (always well-formed trees)."""
    if not isinstance(t, list) or not t or t[0] in ATOMS:
        return
    tag = t[0]
    if tag == 'dict':
        pairs = t[1]
        for j in range(len(pairs)):
            yield ['dict', pairs[:j] + pairs[j + 1:]]
        for j, (k, v) in enumerate(pairs):
            for sub in _expr_reductions(k):
                yield ['dict', pairs[:j] + [[sub, v]] + pairs[j + 1:]]
            for sub in _expr_reductions(v):
                yield ['dict', pairs[:j] + [[k, sub]] + pairs[j + 1:]]
        return
    if tag not in SCHEMA:
        return
    idxs, lidx = SCHEMA[tag]
    if tag not in STMTS:
        # hoist a child in place of the node
        for i in idxs:
            if isinstance(t[i], list) and t[i][0] not in STMTS:
                yield t[i]
    for i in idxs:
        ch = t[i]
        if ch is None:
            continue
        for sub in _expr_reductions(ch):
            yield t[:i] + [sub] + t[i + 1:]
    if lidx is not None:
        items = t[lidx]
        for j in range(len(items)):
            if tag == 'block' and len(items) == 1:
                break
            yield t[:lidx] + [items[:j] + items[j + 1:]] + t[lidx + 1:]
        for j, el in enumerate(items):
            red = tree_reductions(el) if (tag == 'block') else _expr_reductions(el)
            for sub in red:
                if tag != 'block' and sub[0] in STMTS:
                    continue
                yield t[:lidx] + [items[:j] + [sub] + items[j + 1:]] + t[lidx + 1:]


def _expr_reductions(ch):
    if not isinstance(ch, list) or not ch:
        return
    if ch[0] not in ('num', 'none', 'bool'):
        for leaf in LEAVES:
            if ch != leaf:
                yield leaf
    if ch[0] not in ATOMS:
        for sub in tree_reductions(ch):
            if sub[0] not in STMTS:
                yield sub
