"""Deterministic simulation with fault injection for alekseyl1992/smartquery (see /verif/DESIGN.md)."""
