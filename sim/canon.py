"""Canonical forms, digests, snapshots, type walks and digit counts. No hash(), no id() ordering."""
import hashlib
import json
import re
import types
from decimal import Decimal

_ADDR = re.compile(r' at 0x[0-9a-fA-F]+')


def norm_msg(s: str) -> str:
    return _ADDR.sub(' at 0x?', s)


def fn_kind(f, fn_names=None):
    if fn_names is not None:
        n = fn_names.get(id(f))
        if n is not None:
            return n
    k = getattr(f, '_sim_kind', None)
    if k:
        return k
    if 'LambdaOp' in getattr(f, '__qualname__', ''):
        return 'lambda'         # a program lambda created in an unmonitored (twin) universe
    if 'smartquery' in str(getattr(type(f), '__module__', '')):
        return 'lambda'         # a callable object of a class the package defines (how it represents lambdas is its business)
    return 'callable'


class _TooBig(Exception):
    pass


NODE_BUDGET = 60000


def canon(o, fn_names=None):
    """Cycle-safe, order-preserving, typed encoding of plain data (JSON-able). A value whose expansion exceeds
    NODE_BUDGET nodes (heavily shared structures such as x = [x, x] repeated 20 times expand exponentially) is encoded
    as one opaque marker: comparisons on it are then vacuous, never slow."""
    budget = [NODE_BUDGET]
    try:
        return _canon(o, fn_names, None, budget)
    except _TooBig:
        return ['huge', type(o).__name__]


def _canon(o, fn_names, _seen, budget):
    budget[0] -= 1
    if budget[0] < 0:
        raise _TooBig()
    if o is None or o is True or o is False:
        return o
    t = type(o)
    if t is str:
        if ' at 0x' in o:
            return _ADDR.sub(' at 0x?', o)      # the text of a stringified function embeds a memory address
        return o
    if t is int:
        if o.bit_length() > 12000:      # str() of such an int raises ValueError (int/str conversion limit)
            return ['i', 'hex', hex(o)]
        return ['i', str(o)]
    if t is float:
        return ['f', repr(o)]
    if isinstance(o, Decimal):
        return ['d', str(o)]
    if isinstance(o, (list, tuple, dict)):
        if _seen is None:
            _seen = {}
        if id(o) in _seen:
            return ['cycle', _seen[id(o)]]
        _seen[id(o)] = len(_seen)
        try:
            if isinstance(o, dict):
                return ['m', [[_canon(k, fn_names, _seen, budget), _canon(v, fn_names, _seen, budget)] for k, v in o.items()]]
            tag = 'l' if isinstance(o, list) else 't'
            return [tag, [_canon(v, fn_names, _seen, budget) for v in o]]
        finally:
            del _seen[id(o)]
    if t is slice:
        return ['slice', _canon(o.start, fn_names, _seen, budget), _canon(o.stop, fn_names, _seen, budget), _canon(o.step, fn_names, _seen, budget)]
    if isinstance(o, BaseException):
        return ['exc', type(o).__name__, norm_msg(str(o))]
    if callable(o):
        return ['fn', fn_kind(o, fn_names)]
    return ['obj', t.__module__ + '.' + t.__qualname__]


def digest(o) -> str:
    try:
        s = json.dumps(o, sort_keys=False, ensure_ascii=True, separators=(',', ':'), default=str)
        return hashlib.sha256(s.encode()).hexdigest()[:16]
    except RecursionError:
        # nested hundreds of levels deep (a reduce that wraps its accumulator once per element): hash it without recursion
        h = hashlib.sha256()
        stack = [o]
        while stack:
            x = stack.pop()
            if isinstance(x, (list, tuple)):
                h.update(b'[%d' % len(x))
                stack.extend(reversed(x))
            elif isinstance(x, dict):
                h.update(b'{%d' % len(x))
                for k, v in reversed(list(x.items())):
                    stack.append(v)
                    stack.append(str(k))
            else:
                h.update(repr(x).encode('utf-8', 'backslashreplace'))
        return 'deep' + h.hexdigest()[:12]


def cdigest(o, fn_names=None) -> str:
    return digest(canon(o, fn_names))


def snap(o):
    """Structure + identity of nested containers (for argument-preservation checks). Hashable tuples."""
    budget = [NODE_BUDGET]
    try:
        return _snap(o, None, budget)
    except _TooBig:
        return ('huge', id(o))


def _snap(o, _seen, budget):
    budget[0] -= 1
    if budget[0] < 0:
        raise _TooBig()
    if isinstance(o, (list, tuple, dict)):
        if _seen is None:
            _seen = set()
        if id(o) in _seen:
            return ('cycle', id(o))
        _seen.add(id(o))
        try:
            if isinstance(o, dict):
                return ('m', id(o), tuple((_snap(k, _seen, budget), _snap(v, _seen, budget)) for k, v in o.items()))
            return ('l' if isinstance(o, list) else 't', id(o), tuple(_snap(v, _seen, budget) for v in o))
        finally:
            _seen.discard(id(o))
    if o is None or isinstance(o, (bool, int, float, str, Decimal)):
        return (type(o).__name__, str(o) if isinstance(o, Decimal) else o)
    d = getattr(o, '__dict__', None)
    if type(d) is dict and not callable(o) and not isinstance(o, type):
        # a plain host object (record): its attributes are part of what must stay as it was
        if _seen is None:
            _seen = set()
        if id(o) in _seen:
            return ('cycle', id(o))
        _seen.add(id(o))
        try:
            return ('o', id(o), tuple((k, _snap(v, _seen, budget)) for k, v in sorted(d.items(), key=lambda kv: str(kv[0]))))
        finally:
            _seen.discard(id(o))
    return ('o', id(o))


def reachable_mutables(o, acc=None):
    """ids -> object of every list/dict reachable from o."""
    if acc is None:
        acc = {}
    stack = [o]
    while stack:
        x = stack.pop()
        if isinstance(x, (list, dict)):
            if id(x) in acc:
                continue
            acc[id(x)] = x
            if isinstance(x, dict):
                stack.extend(x.keys())
                stack.extend(x.values())
            else:
                stack.extend(x)
        elif isinstance(x, tuple):
            stack.extend(x)
    return acc


PLAIN_SCALARS = (type(None), bool, int, float, Decimal, str)


def type_walk(o, is_allowed_callable, path='$', _seen=None, _budget=None):
    """Return None if o is plain data (or an allowed callable), else (path, type name) of the first offender.
    At most 40000 nodes of one value are visited (a value that big has been walked piece by piece as it was built)."""
    if _budget is None:
        _budget = [40000]
    _budget[0] -= 1
    if _budget[0] < 0:
        return None
    if len(path) > 400:
        path = path[:60] + '...' + path[-60:]
    if isinstance(o, PLAIN_SCALARS):
        # subclasses of the scalar types other than the language's Decimal are suspicious
        t = type(o)
        if t in PLAIN_SCALARS or (isinstance(o, Decimal) and t.__name__ == 'Decimal'):
            return None
        return (path, t.__module__ + '.' + t.__qualname__)
    t = type(o)
    if t in (list, tuple, dict):
        if _seen is None:
            _seen = set()
        if id(o) in _seen:
            return None
        _seen.add(id(o))
        keep = getattr(_seen, 'keep', None)
        if keep is not None:
            keep.append(o)          # a persistent seen-set keeps what it has seen alive (ids are not reused meanwhile)
        if t is dict:
            for k, v in o.items():
                r = type_walk(k, is_allowed_callable, path + '.key', _seen, _budget) or \
                    type_walk(v, is_allowed_callable, '%s[%r]' % (path, k if isinstance(k, str) else '?'), _seen, _budget)
                if r:
                    return r
            return None
        for i, v in enumerate(o):
            r = type_walk(v, is_allowed_callable, '%s[%d]' % (path, i), _seen, _budget)
            if r:
                return r
        return None
    if t is slice:
        for part, name in ((o.start, 'start'), (o.stop, 'stop'), (o.step, 'step')):
            r = type_walk(part, is_allowed_callable, path + '.' + name, _seen, _budget)
            if r:
                return r
        return None
    if is_allowed_callable(o):
        return None
    return (path, t.__module__ + '.' + t.__qualname__)


def digits(v) -> int:
    """Number of significant digits of a number (0 for non-numbers / specials)."""
    if isinstance(v, bool):
        return 1
    if isinstance(v, int):
        if v == 0:
            return 1
        n = abs(v)
        # avoid materialising the decimal string of gigantic ints
        bl = n.bit_length()
        if bl > 4000:
            return int(bl * 0.30102999566398114) + 1
        return len(str(n))
    if isinstance(v, Decimal):
        if not v.is_finite():
            return 0
        return max(1, len(v.as_tuple().digits))
    if isinstance(v, float):
        if v != v or v in (float('inf'), float('-inf')):
            return 0
        return max(1, len(Decimal(v).as_tuple().digits))
    return 0


def int_width(v) -> int:
    """Digits needed to write the integer part / full expansion (for Decimal with positive exponent)."""
    if isinstance(v, Decimal) and v.is_finite():
        tup = v.as_tuple()
        return len(tup.digits) + max(0, tup.exponent)
    return digits(v)


def tree_digest(t) -> str:
    """Structural digest of a syntax tree without recursion (trees nested thousands of levels deep are legal)."""
    h = hashlib.sha256()
    stack = [t]
    n = 0
    while stack:
        x = stack.pop()
        n += 1
        if isinstance(x, (list, tuple)):
            h.update(b'[%d' % len(x))
            stack.extend(reversed(x))
            continue
        d = getattr(x, '__dict__', None)
        if isinstance(d, dict) and hasattr(x, 'eval') and not callable(x):
            h.update(type(x).__name__.encode())
            for k in sorted(d):
                h.update(k.encode())
                stack.append(d[k])
            continue
        h.update(repr(x).encode('utf-8', 'backslashreplace'))
        if isinstance(d, dict) and d:
            h.update(repr(sorted((k, repr(v)) for k, v in d.items())).encode('utf-8', 'backslashreplace'))
    return '%s/%d' % (h.hexdigest()[:16], n)
