"""Reference model: a small interpreter of the neutral tree written from the property statements.

Outcome kinds
  value       the program yields a value (ANY = value not specified by any property)
  lang        a language-level failure: the system must raise ParserError
  other       some other failure: the system must raise an ordinary Exception (class not demanded)
  host        a host probe raised HostError: it must propagate unchanged
  unspec      outside the model's declared domain: the step is executed but not judged

The model shares Python's Decimal / list / dict / str with the system ("Python semantics over exact
decimals"); what it writes independently is structure: evaluation order, laziness, scoping, copies, key and
index casts, the size cap, error classes.
"""
import copy
import functools
import math
from decimal import Decimal

CAP = 10000


class MErr(Exception):
    def __init__(self, kind, msg=''):
        super().__init__(msg)
        self.kind = kind


def runaway(out):
    """The model gave up because the program does not end within its caps (runaway recursion, doubling data): such a
    program is a time / memory bomb for the real system too and is not made part of a history."""
    return out[0] == 'unspec' and any(k in str(out[1]) for k in ('step cap', 'size cap', 'deep recursion', 'model recursion', 'recursion inside'))


class Unspec(Exception):
    pass


class _Any:
    def __repr__(self):
        return 'ANY'


ANY = _Any()


class MLambda:
    _sim_kind = 'lambda'
    __slots__ = ('params', 'body', 'model', 'epoch')

    def __init__(self, params, body, model):
        self.params = params
        self.body = body
        self.model = model
        self.epoch = model.epoch      # which eval call created it

    def __deepcopy__(self, memo):
        return self           # functions are copied by reference, as in Python

    def __call__(self, *args):
        return self.model.call_lambda(self, args)


class MBuiltin:
    __slots__ = ('name', 'model', '_sim_kind')

    def __init__(self, name, model):
        self.name = name
        self.model = model
        self._sim_kind = 'builtin:' + name

    def __deepcopy__(self, memo):
        return self

    def __call__(self, *args):
        return self.model.call_builtin(self.name, list(args))


class MHost:
    __slots__ = ('name', 'model', '_sim_kind')

    def __init__(self, name, model):
        self.name = name
        self.model = model
        self._sim_kind = 'host:' + name

    def __deepcopy__(self, memo):
        return self

    def __call__(self, *args):
        return self.model.call_host(self.name, list(args))


NUMERIC = (Decimal, int, float)
MODELLED_BUILTINS = (
    'len', 'int', 'float', 'str', 'list', 'dict', 'startswith', 'endswith', 'lower', 'upper', 'strip', 'replace',
    'keys', 'values', 'items', 'sum', 'get', '__getitem__', '__delitem__', '__setitem__', '__setitem_with_op__',
    'map', 'filter', 'reduce', 'join', 'split', 'round', 'floor', 'ceil', 'abs', 'min', 'max',
    'push', 'pop', 'insert', 'remove', 'sorted', 'reversed', 'enumerate', 'index_of')
UNMODELLED_BUILTINS = ('pretty', 'match', 'match_groups', 'match_all', 'rand', 'shuffle')


def is_container(v):
    return isinstance(v, (list, dict, tuple))


def _has_nonfinite(v):
    return isinstance(v, Decimal) and not v.is_finite()


class Model:
    def __init__(self, host_names=None, host_fns=(), step_cap=20000, builtin_names=None):
        self.builtins = {}
        for n in (builtin_names if builtin_names is not None else MODELLED_BUILTINS + UNMODELLED_BUILTINS):
            self.builtins[n] = MBuiltin(n, self)
        self.host = host_names if host_names is not None else {}
        for n in host_fns:
            self.host[n] = MHost(n, self)
        self.scopes = [self.builtins, self.host]
        self.log = []               # probe log: (name, i)
        self.kept = []              # objects the host retained through keep()
        self.steps = 0
        self.step_cap = step_cap
        self.probe_faults = {}      # invocation index (1-based) -> 'raise'
        self.probe_calls = 0
        self.max_scope_depth = 2
        self.stats = None
        self.epoch = 0
        self.active_epochs = []
        # Before the repair 13ac26d ("a lambda called by a later eval runs under that eval's op budget and
        # scopes") what a lambda of an earlier eval saw of the scopes of calls in progress was incoherent and was
        # not judged. Since the repair lambdas are dynamically scoped uniformly (C07) and the model judges it.
        self.cross_eval_unspecified = False
        self.reentry = []           # world cfg 'reentry': what the host function re(i) does (see world.Host.reenter)

    # ------------------------------------------------------------------ entry point
    def run(self, tree, names=None, ast_names=None):
        """Evaluate a program against self.host (or another host mapping). Returns (kind, value).
        ast_names: {name: expression tree} evaluated in order and bound at the host level before the program runs."""
        saved = self.scopes
        if names is not None:
            self.scopes = [self.builtins, names]
        else:
            self.scopes = [self.builtins, self.host]
        self.steps = 0
        self.epoch += 1
        self.active_epochs = []
        try:
            for k, t in (ast_names or {}).items():
                self.scopes[-1][k] = self.expr(t)
            v = self.prog(tree)
            return ('value', v)
        except MErr as e:
            return (e.kind, str(e))
        except Unspec as e:
            return ('unspec', str(e))
        except RecursionError:
            return ('unspec', 'model recursion')
        finally:
            # scopes are popped when a call ends for any reason
            self.scopes = saved

    def prog(self, tree):
        if tree[0] == 'block':
            res = None
            for st in tree[1]:
                res = self.stmt(st)
            return res
        return self.stmt(tree)

    # ------------------------------------------------------------------ helpers
    def tick(self):
        self.steps += 1
        if self.steps > self.step_cap:
            raise Unspec('model step cap')

    def lookup(self, name):
        for sc in reversed(self.scopes):
            if name in sc:
                return sc[name]
        raise KeyError(name)

    def py(self, f, *a):
        """Run a Python-semantics primitive; any failure is an 'other' error (class not demanded)."""
        try:
            return f(*a)
        except (MErr, Unspec):
            raise
        except RecursionError:
            raise Unspec('recursion inside primitive')
        except Exception as e:
            raise MErr('other', '%s: %s' % (type(e).__name__, e))

    def copy(self, v):
        try:
            return copy.deepcopy(v)
        except RecursionError:
            raise Unspec('recursion inside deepcopy')
        except Exception as e:       # a host object that cannot be copied: the assignment fails, nothing is stored
            raise MErr('other', '%s: %s' % (type(e).__name__, e))

    # ------------------------------------------------------------------ statements
    def stmt(self, t):
        tag = t[0]
        if tag == 'assign':
            self.tick()
            v = self.expr(t[2])
            self.scopes[-1][t[1]] = self.copy(v)
            return None
        if tag == 'short':
            self.tick()
            v = self.copy(self.expr(t[3]))
            try:
                cur = self.lookup(t[1])
            except KeyError:
                raise MErr('lang', 'undefined variable ' + t[1])
            new = self.short_op(cur, t[2], v)
            self.scopes[-1][t[1]] = new
            return None
        if tag == 'setitem':
            return self.call_named('__setitem__', [t[1], t[2], t[3]])
        if tag == 'setitemop':
            return self.call_named('__setitem_with_op__', [t[1], t[2], ['str', t[3]], t[4]])
        if tag == 'del':
            return self.call_named('__delitem__', [t[1], t[2]])
        if tag == 'block':
            raise Unspec('nested block')
        return self.expr(t)

    def short_op(self, cur, op, v):
        if op == '+=':
            if isinstance(cur, str) and not isinstance(v, str):
                return self.py(lambda: cur + v)      # no coercion in compound form: Python raises TypeError
            def f():
                c = cur
                c += v
                return c
            return self.py(f)
        if op == '-=':
            return self.py(lambda: cur - v)
        if op == '/=':
            return self.py(lambda: cur / v)
        if op == '*=':
            # C04: multiplication - as operator and as compound assignment - computes in decimal arithmetic and
            # never repeats strings or lists
            if not isinstance(cur, NUMERIC) or not isinstance(v, NUMERIC):
                raise MErr('other', 'multiply non-numbers')
            return self.py(lambda: Decimal(cur) * Decimal(v))
        raise Unspec('short op ' + op)

    # ------------------------------------------------------------------ expressions
    def expr(self, t):
        self.tick()
        tag = t[0]
        if tag == 'num':
            return Decimal(t[1])
        if tag == 'str':
            return t[1]
        if tag == 'bool':
            return bool(t[1])
        if tag == 'none':
            return None
        if tag == 'name':
            try:
                return self.lookup(t[1])
            except KeyError:
                raise MErr('lang', 'undefined variable ' + t[1])
        if tag == 'bin':
            return self.binop(t[1], t[2], t[3])
        if tag == 'neg':
            v = self.expr(t[1])
            return self.py(lambda: -v)
        if tag == 'not':
            v = self.expr(t[1])
            return self.py(lambda: not v)
        if tag == 'if':
            c = self.expr(t[2])
            return self.expr(t[1]) if self.truth(c) else self.expr(t[3])
        if tag == 'list':
            return self.call_named('list', t[1])
        if tag == 'dict':
            if not t[1]:
                return self.call_named('dict', [])
            d = {}
            for k, v in t[1]:
                kk = self.dict_key(self.expr(k))
                d[kk] = self.expr(v)
            return d
        if tag == 'index':
            return self.call_named('__getitem__', [t[1], t[2]])
        if tag == 'slice':
            return self.slice_(t)
        if tag == 'call':
            return self.call_named(t[1], t[2])
        if tag == 'lambda':
            return MLambda(list(t[1]), t[2], self)
        raise Unspec('statement in expression position: ' + tag)

    def truth(self, v):
        return self.py(bool, v)

    def binop(self, op, lt, rt):
        l = self.expr(lt)
        if op == 'and':
            return self.expr(rt) if self.truth(l) else l
        if op == 'or':
            return l if self.truth(l) else self.expr(rt)
        r = self.expr(rt)
        if op == '+':
            if isinstance(l, str) and not isinstance(r, str):
                r = self.to_str(r)
            if isinstance(l, (str, list)) and isinstance(r, (str, list)) and len(l) + len(r) > 200000:
                raise Unspec('model size cap')       # a doubling chain: the model does not follow programs that big
            return self.py(lambda: l + r)
        if op == '-':
            return self.py(lambda: l - r)
        if op == '/':
            return self.py(lambda: l / r)
        if op == '*':
            if not isinstance(l, NUMERIC) or not isinstance(r, NUMERIC):
                raise MErr('other', 'multiply non-numbers')
            return self.py(lambda: Decimal(l) * Decimal(r))
        if op == '**':
            if not isinstance(l, NUMERIC) or not isinstance(r, NUMERIC):
                raise Unspec('** on non-numbers')
            return self.py(lambda: Decimal(l) ** Decimal(r))
        if op == '==':
            return self.py(lambda: l == r)
        if op == '!=':
            return self.py(lambda: l != r)
        if op == '<':
            return self.py(lambda: l < r)
        if op == '<=':
            return self.py(lambda: l <= r)
        if op == '>':
            return self.py(lambda: l > r)
        if op == '>=':
            return self.py(lambda: l >= r)
        if op == 'in':
            return self.py(lambda: l in r)
        if op == 'notin':
            return self.py(lambda: l not in r)
        raise Unspec('operator ' + op)

    def to_str(self, v):
        """str(v) where the text is specified: scalars only (the text of containers/functions is not)."""
        if isinstance(v, (list, dict, tuple)) or callable(v):
            raise Unspec('text of a container or function')
        return self.py(str, v)

    def dict_key(self, k):
        if isinstance(k, (list, dict, tuple, slice)) or callable(k):
            raise Unspec('container as dict key')
        return self.py(str, k)

    def list_index(self, k):
        if isinstance(k, Decimal):
            return self.py(int, k)
        return k

    def key_cast(self, c, k):
        return self.dict_key(k) if isinstance(c, dict) else self.list_index(k)

    def slice_(self, t):
        c = self.expr(t[1])
        shape, a, b = t[2], t[3], t[4]
        start = stop = step = None

        def bound(x):
            v = self.expr(x)
            if v is None:
                return None
            if isinstance(v, str):
                raise Unspec('string slice bound')
            return self.py(int, v)
        # every absent bound is still a (None) operand evaluated in order start, stop, step
        if shape == ':':
            pass
        elif shape == 'a:b':
            start = bound(a); stop = bound(b)
        elif shape == 'a:':
            start = bound(a)
        elif shape == ':b':
            stop = bound(a)
        elif shape == 'a::':
            start = bound(a)
        elif shape == ':b:':
            stop = bound(a)
        elif shape == '::s':
            step = bound(a)
        else:
            raise Unspec(shape)
        sl = slice(start, stop, step)
        try:
            f = self.lookup('__getitem__')
        except KeyError:
            raise MErr('lang', 'undefined function')
        if not isinstance(f, MBuiltin) or f.name != '__getitem__':
            return self.call_value(f, [c, sl])
        if isinstance(c, dict) or not isinstance(c, (list, str, tuple)):
            raise Unspec('slice of a non-sequence')
        return self.py(lambda: c[sl])

    # ------------------------------------------------------------------ calls
    def call_named(self, fname, arg_trees):
        args = [self.expr(a) for a in arg_trees]
        try:
            f = self.lookup(fname)
        except KeyError:
            raise MErr('lang', 'undefined function ' + fname)
        return self.call_value(f, args)

    def call_value(self, f, args):
        if isinstance(f, MLambda):
            return self.call_lambda(f, args)
        if isinstance(f, MBuiltin):
            return self.call_builtin(f.name, list(args))
        if isinstance(f, MHost):
            return self.call_host(f.name, list(args))
        if callable(f):
            raise Unspec('foreign callable')
        raise MErr('other', 'not callable')

    def call_lambda(self, f, args):
        # Lambdas are dynamically scoped within one evaluation. What a lambda created by an EARLIER eval call sees
        # of the scopes of calls in progress (and vice versa) is specified by no property: not judged.
        if self.cross_eval_unspecified and any(e != f.epoch for e in self.active_epochs):
            raise Unspec('nested call between lambdas created by different eval calls')
        self.active_epochs.append(f.epoch)
        try:
            return self._call_lambda(f, args)
        finally:
            self.active_epochs.pop()

    def _call_lambda(self, f, args):
        scope = {p: a for p, a in zip(f.params, args)}
        self.scopes.append(scope)
        if len(self.scopes) > self.max_scope_depth:
            self.max_scope_depth = len(self.scopes)
        if len(self.scopes) > 200:
            self.scopes.pop()
            raise Unspec('deep recursion')
        try:
            if f.body[0] == 'block':
                return self.prog(f.body)       # ast_names style multi-statement body
            return self.expr(f.body)
        finally:
            self.scopes.pop()

    # ------------------------------------------------------------------ host probes
    def call_host(self, name, args):
        if name in ('t', 'boom'):
            self.probe_calls += 1
            i = args[0] if args else None
            self.log.append((name, str(i)))
            if name == 'boom' or self.probe_faults.get(self.probe_calls) in ('raise', 'stop', 'value'):
                raise MErr('host', 'probe %s' % (i,))
            return args[1] if len(args) > 1 else i
        if name == 'call':
            if not args:
                raise MErr('other', 'call()')
            return self.call_value(args[0], args[1:])
        if name == 'attempt':
            if not args:
                raise MErr('other', 'attempt()')
            depth = len(self.scopes)
            try:
                return self.call_value(args[0], args[1:])
            except MErr as e:
                del self.scopes[depth:]
                return 'caught'
        if name == 'keep':
            self.kept.append(args[0] if args else None)
            return args[0] if args else None
        if name == 're' and self.reentry:
            return self.reenter(args[0] if args else 0)
        raise Unspec('host function ' + name)

    def reenter(self, i):
        """The host calls back into the same parser: an evaluation of its own (own scope stack on the given names
        mapping, own budget, failures swallowed by the host), a parse, or a (partial) name listing."""
        from . import canon, lang
        try:
            spec = self.reentry[int(i) % len(self.reentry)]
        except Exception:
            return None
        api = spec.get('api', 'eval')
        if api == 'eval':
            names = self.scopes[1] if spec.get('names') == 'same' else {}
            saved = (self.steps, self.epoch, self.active_epochs, self.scopes)
            try:
                out = self.run(spec['prog'], names=names)
            finally:
                self.steps, _, self.active_epochs, self.scopes = saved[0], saved[1], saved[2], saved[3]
            if out[0] == 'unspec':
                raise Unspec('re-entrant program: ' + str(out[1]))
            res = out[1] if out[0] == 'value' else 'inner-failed:' + out[0]
        elif api == 'parse':
            res = 'parsed'
        else:
            names = lang.names_in(spec['prog'])
            n = spec.get('consume')
            res = names if n is None else names[:n]
        self.log.append(('re', str(i), canon.cdigest(res) if not isinstance(res, str) else res))
        return res

    # ------------------------------------------------------------------ builtins
    def call_builtin(self, name, a):
        m = getattr(self, 'b_' + name.strip('_'), None)
        if m is None:
            raise Unspec('builtin %s not modelled' % name)
        try:
            return m(*a)
        except TypeError as e:
            # wrong number of arguments to a modelled builtin
            if 'positional argument' in str(e) or 'required positional' in str(e):
                raise MErr('other', 'arity')
            raise

    def check_cap(self, c):
        n = self.py(len, c)
        if n >= CAP:
            raise MErr('lang', 'size cap')

    def b_len(self, v):
        return self.py(len, v)

    def b_int(self, v):
        if isinstance(v, Decimal) and v.is_finite() and v.adjusted() > 200:
            raise Unspec('int() of a huge exponent (C04)')
        if isinstance(v, str) and len(v) > 200:
            raise Unspec('int() of a long digit string')
        return self.py(lambda: Decimal(int(v)))

    def b_float(self, v):
        if isinstance(v, str) and len(v) > 200:
            raise Unspec('float() of a long string')
        return self.py(lambda: Decimal(float(v)))

    def b_str(self, *a):
        if len(a) != 1:
            raise Unspec('str arity')
        return self.to_str(a[0])

    def b_list(self, *a):
        return list(a)

    def b_dict(self, *a):
        if not a:
            return {}
        raise Unspec('dict(...) with arguments')

    def _strfn(self, fn, a, n_ok):
        if not a or not isinstance(a[0], str):
            raise MErr('other', 'string function on non-string')
        if len(a) not in n_ok:
            raise MErr('other', 'arity')
        return self.py(fn, *a)

    def b_startswith(self, *a):
        if len(a) > 1 and not isinstance(a[1], (str, tuple)):
            raise MErr('other', 'type')
        if len(a) > 2:
            raise Unspec('startswith with bounds')
        return self._strfn(str.startswith, a, (2,))

    def b_endswith(self, *a):
        if len(a) > 1 and not isinstance(a[1], (str, tuple)):
            raise MErr('other', 'type')
        if len(a) > 2:
            raise Unspec('endswith with bounds')
        return self._strfn(str.endswith, a, (2,))

    def b_lower(self, *a):
        return self._strfn(str.lower, a, (1,))

    def b_upper(self, *a):
        return self._strfn(str.upper, a, (1,))

    def b_strip(self, *a):
        return self._strfn(str.strip, a, (1, 2))

    def b_replace(self, s, old, new, count=-1):
        return self.py(lambda: s.replace(old, new, int(count)))

    def b_keys(self, v):
        return self.py(lambda: list(v.keys()))

    def b_values(self, v):
        return self.py(lambda: list(v.values()))

    def b_items(self, v):
        return self.py(lambda: list(v.items()))

    def b_sum(self, v):
        if isinstance(v, list):
            return self.py(sum, v)
        return v

    def b_get(self, c, k, default=None):
        if not isinstance(c, dict):
            raise MErr('other', 'get on non-dict')
        return c.get(self.dict_key(k), default)

    def b_getitem(self, c, k):
        if isinstance(k, slice):
            raise Unspec('slice object as key')
        key = self.key_cast(c, k)
        try:
            return c[key]
        except LookupError:
            raise MErr('lang', 'missing key')
        except Exception as e:
            raise MErr('other', str(e))

    def b_delitem(self, c, k):
        key = self.key_cast(c, k)
        if isinstance(c, dict):
            if key in c:
                del c[key]
            return None
        if not isinstance(c, list):
            raise Unspec('del on non-container')

        def f():
            if len(c) > key:
                del c[key]
        return self.py(f)

    def b_setitem(self, c, k, v):
        self.check_cap(c)
        key = self.key_cast(c, k)
        if not isinstance(c, (list, dict)):
            raise MErr('other', 'not a container')
        vv = self.copy(v)

        def f():
            c[key] = vv
        self.py(f)
        return ANY

    def b_setitem_with_op(self, c, k, op, v):
        self.check_cap(c)
        key = self.key_cast(c, k)
        if not isinstance(c, (list, dict)):
            raise MErr('other', 'not a container')
        vv = self.copy(v)
        try:
            cur = c[key]
        except LookupError:
            raise MErr('lang', 'missing key')
        except Exception as e:
            raise MErr('other', str(e))
        new = self.short_op(cur, op, vv)

        def f():
            c[key] = new
        self.py(f)
        return ANY

    def b_map(self, c, f):
        if isinstance(c, (list, str)):
            return [self.call_value(f, [v]) for v in list(c)] if not isinstance(c, list) else self._map_list(c, f)
        if isinstance(c, dict):
            out = []
            try:
                for k, v in c.items():
                    out.append(self.call_value(f, [k, v]))
            except RuntimeError as e:
                raise MErr('other', str(e))
            return out
        raise MErr('other', 'map on non-container')

    def _map_list(self, c, f):
        out = []
        for v in c:             # live iteration, as a Python comprehension does
            out.append(self.call_value(f, [v]))
        return out

    def b_filter(self, c, f):
        if not isinstance(c, list):
            raise MErr('other', 'filter on non-list')
        if f is None:
            # not a function at all: the reference semantics say nothing (Python's filter would keep the truthy elements)
            raise Unspec('filter with None as function')
        out = []
        for v in c:
            if self.truth(self.call_value(f, [v])):
                out.append(v)
        return out

    def b_reduce(self, c, f):
        if isinstance(c, (list, str, dict, tuple)):
            try:
                return functools.reduce(lambda x, y: self.call_value(f, [x, y]), c)
            except (MErr, Unspec):
                raise
            except Exception as e:
                raise MErr('other', str(e))
        raise MErr('other', 'reduce on non-iterable')

    def b_join(self, c, sep='\n'):
        if not isinstance(c, (list, tuple, str, dict)):
            raise MErr('other', 'join of non-iterable')
        if not isinstance(sep, str):
            raise MErr('other', 'sep')
        return self.py(lambda: sep.join([self.to_str(x) for x in c]))

    def b_split(self, s_, sep=' ', max_split=-1):
        return self.py(lambda: s_.split(sep, maxsplit=int(max_split)))

    def b_round(self, v, nd=None):
        if isinstance(v, (float,)) or _has_nonfinite(v):
            raise Unspec('round of float/non-finite')
        return self.py(lambda: Decimal(str(round(v, int(nd) if nd is not None else None))))

    def b_floor(self, *a):
        if len(a) != 1 or _has_nonfinite(a[0]):
            raise MErr('other', 'arity')
        if isinstance(a[0], Decimal) and a[0].adjusted() > 200:
            raise Unspec('floor of huge exponent')
        return self.py(lambda: Decimal(str(math.floor(a[0]))))

    def b_ceil(self, *a):
        if len(a) != 1 or _has_nonfinite(a[0]):
            raise MErr('other', 'arity')
        if isinstance(a[0], Decimal) and a[0].adjusted() > 200:
            raise Unspec('ceil of huge exponent')
        return self.py(lambda: Decimal(str(math.ceil(a[0]))))

    def b_abs(self, v):
        return self.py(lambda: Decimal(abs(v)))

    def b_min(self, *a):
        return self.py(min, *a)

    def b_max(self, *a):
        return self.py(max, *a)

    def b_push(self, arr, v):
        self.check_cap(arr)
        if not isinstance(arr, list):
            raise MErr('other', 'push on non-list')
        arr.append(v)
        return None

    def b_pop(self, arr, i=None):
        if not isinstance(arr, list):
            raise Unspec('pop on non-list')
        if i is None:
            if not arr:
                raise MErr('lang', 'pop from empty list')
            return arr.pop()
        idx = self.py(int, i)
        try:
            return arr.pop(idx)
        except IndexError:
            raise MErr('lang', 'pop index out of range')
        except OverflowError as e:
            raise MErr('other', str(e))

    def b_insert(self, arr, i, v):
        self.check_cap(arr)
        if not isinstance(arr, list):
            raise MErr('other', 'insert on non-list')
        idx = self.py(int, i)
        self.py(lambda: arr.insert(idx, v))
        return None

    def b_remove(self, c, v):
        if isinstance(c, list):
            def f():
                if v in c:
                    c.remove(v)
            return self.py(f)
        if isinstance(c, dict):
            def g():
                if v in c:
                    del c[v]
            return self.py(g)
        raise Unspec('remove on non-container')

    def b_sorted(self, c, key=None, reverse=False):
        if isinstance(c, dict):
            if key is not None and not callable(key):
                raise MErr('other', 'key not callable')
            if callable(key):
                kf = lambda p: self.call_value(key, [p[0], p[1]])
            else:
                kf = None
            return self.py(lambda: dict(sorted(c.items(), key=kf, reverse=self.truth(reverse))))
        if not isinstance(c, (list, str, tuple)):
            raise MErr('other', 'sorted of non-iterable')
        if key is not None and not callable(key):
            raise MErr('other', 'key not callable')
        kf = (lambda x: self.call_value(key, [x])) if key is not None else None
        if not isinstance(reverse, (bool, int, Decimal)):
            raise Unspec('reverse flag type')
        if isinstance(reverse, Decimal):
            raise MErr('other', 'reverse must be int')
        return self.py(lambda: list(sorted(c, key=kf, reverse=reverse)))

    def b_reversed(self, c):
        if isinstance(c, str):
            return ''.join(reversed(c))
        return self.py(lambda: list(reversed(c)))

    def b_enumerate(self, c):
        return self.py(lambda: list(enumerate(c)))

    def b_index_of(self, c, v):
        if not isinstance(c, (list, tuple)):
            raise Unspec('index_of on non-list')
        try:
            return c.index(v)
        except ValueError:
            return None
        except Exception as e:
            raise MErr('other', str(e))
