"""Command line: python -m sim.cli C14 --tier quick [--seed N] [--runs N] [--workers N] | --replay FILE"""
import argparse
import os
import sys


def main(argv=None):
    ap = argparse.ArgumentParser()
    ap.add_argument('prop', nargs='?')
    ap.add_argument('--tier', default=os.environ.get('VERIF_TIER', 'quick'), choices=['quick', 'thorough'])
    ap.add_argument('--seed', type=int, default=None)
    ap.add_argument('--runs', type=int, default=None)
    ap.add_argument('--workers', type=int, default=None)
    ap.add_argument('--replay')
    ap.add_argument('--quiet', action='store_true')
    ap.add_argument('--only')
    a = ap.parse_args(argv)
    from . import runner
    if a.replay:
        return runner.replay(a.replay, quiet=a.quiet)
    if a.prop in ('selftest-determinism', 'selftest-mutants', 'selftest-seeded', 'selftest-antimutants'):
        from . import selftest
        return selftest.main(a.prop, a)
    if not a.prop:
        ap.error('property id required')
    seed = a.seed if a.seed is not None else int(os.environ.get('VERIF_SEED', runner.DEFAULT_SEED))
    return runner.check(a.prop.upper(), a.tier, seed, workers=a.workers, n_runs=a.runs)


if __name__ == '__main__':
    try:
        rc = main()
    except SystemExit:
        raise
    except BaseException:       # the machinery itself failed: never exit 0, never look like a VIOLATION
        import traceback
        traceback.print_exc()
        print('HARNESS-ERROR uncaught exception in the checker (see traceback)')
        rc = 2
    sys.exit(rc)
