"""Shared seeded generators: literal trees, host value specs, keys, names."""
from decimal import Decimal

from .rng import weighted

SMALL_STRS = ['', 'a', 'b', 'ab', 'x y', '1', '1.0', '-1', 'True', 'None', 'k', 'key', 'ключ', 'a"b', "it's", '0', '2',
              'e\u0301', '\ufb03x', '\u2126', '\u212b\u00a0', '\uff21']      # not NFC / NFKC normal forms
NUM_TEXTS = ['0', '1', '2', '3', '5', '7', '10', '1.0', '1.5', '0.5', '2.50', '0.1', '0.2', '100', '3.14', '42', '9999']


def num_tree(r, allow_neg=True):
    t = ['num', r.choice(NUM_TEXTS)]
    if allow_neg and r.random() < 0.25:
        return ['neg', t]
    return t


def str_tree(r):
    return ['str', r.choice(SMALL_STRS)]


def scalar_tree(r):
    k = weighted(r, [('num', 5), ('str', 3), ('bool', 1), ('none', 1)])
    if k == 'num':
        return num_tree(r)
    if k == 'str':
        return str_tree(r)
    if k == 'bool':
        return ['bool', r.random() < 0.5]
    return ['none']


def value_tree(r, depth=2):
    """A literal expression: scalar or (nested) list/dict literal."""
    if depth <= 0 or r.random() < 0.55:
        return scalar_tree(r)
    if r.random() < 0.6:
        return ['list', [value_tree(r, depth - 1) for _ in range(r.randint(0, 3))]]
    n = r.randint(0, 3)
    keys = r.sample(['a', 'b', 'c', '1', '2', 'k'], n)
    pairs = []
    for k in keys:
        kt = ['str', k] if (not k.isdigit() or r.random() < 0.5) else ['num', k]
        pairs.append([kt, value_tree(r, depth - 1)])
    return ['dict', pairs]


def host_scalar_spec(r):
    k = weighted(r, [('dec', 4), ('int', 3), ('str', 3), ('bool', 1), ('none', 1), ('float', 1)])
    if k == 'dec':
        return {'d': r.choice(NUM_TEXTS + ['-2', '-0.5'])}
    if k == 'int':
        return r.choice([0, 1, 2, 3, -1, 7, 10, 255])
    if k == 'str':
        return r.choice(SMALL_STRS)
    if k == 'bool':
        return r.random() < 0.5
    if k == 'float':
        return {'f': repr(r.choice([0.5, 1.0, 2.25, -1.5]))}
    return None


def host_value_spec(r, depth=2, floats=True):
    if depth <= 0 or r.random() < 0.5:
        sp = host_scalar_spec(r)
        while not floats and isinstance(sp, dict) and 'f' in sp:
            sp = host_scalar_spec(r)
        return sp
    if r.random() < 0.6:
        return [host_value_spec(r, depth - 1, floats) for _ in range(r.randint(0, 4))]
    n = r.randint(0, 3)
    keys = r.sample(['a', 'b', 'c', '1', '2', 'k', '1.0', 'True'], n)
    return {'m': [[k, host_value_spec(r, depth - 1, floats)] for k in keys]}


def host_list_spec(r, lo=0, hi=6, depth=1, floats=False):
    return [host_value_spec(r, depth, floats) for _ in range(r.randint(lo, hi))]


def host_dict_spec(r, lo=0, hi=5, depth=1, floats=False):
    n = r.randint(lo, hi)
    keys = r.sample(['a', 'b', 'c', '1', '2', 'k', '1.0', 'True', 'None', '-1', 'x y', 'e\u0301', '\u212b', '1E-7', '0.0000001'], n)
    return {'m': [[k, host_value_spec(r, depth, floats)] for k in keys]}


SUGARS = ['plain', 'plain', 'method', 'pipe']


def sugar(r, nargs):
    s = r.choice(SUGARS)
    if s == 'pipe' and nargs == 1:
        return 'pipebare' if r.random() < 0.7 else 'method'
    if nargs == 0:
        return 'plain'
    return s


def style(r):
    return 0 if r.random() < 0.3 else r.randrange(1, 2 ** 31)


def reentry_specs(r, names):
    """What the host function re(i) does when a program calls it: the catalogue is part of the world. `names`: the
    world's name -> spec mapping (numbers and lists among them are rebound / mutated by some of the nested programs)."""
    nums = [k for k, v in names.items() if (isinstance(v, int) and not isinstance(v, bool)) or (isinstance(v, dict) and 'd' in v)]
    lists = [k for k, v in names.items() if isinstance(v, list)]
    specs = [{'api': 'eval', 'names': 'fresh', 'prog': ['bin', '+', ['num', '1'], ['num', '1']], 'ret': 'num'},
             {'api': 'eval', 'names': 'same', 'prog': ['bin', '+', ['name', 'undefined_q'], ['num', '1']], 'ret': 'str'},
             {'api': 'parse', 'prog': ['block', [['assign', 'pp', ['list', [['num', '1'], ['call', 'len', [['list', []]], 'plain']]]], ['name', 'pp']]], 'ret': 'str'},
             {'api': 'list_names', 'prog': ['call', 'ff', [['name', 'aa'], ['list', [['name', 'bb'], ['dict', [[['str', 'k'], ['name', 'cc']]]]]]], 'plain'],
              'consume': r.choice([1, 2, None]), 'ret': 'list'},
             {'api': 'eval', 'names': 'same', 'prog': ['block', [['assign', 'hh', ['lambda', ['v'], ['bin', '+', ['name', 'v'], ['num', '1']]]], ['num', '3']]], 'ret': 'num'}]
    if nums:
        x = r.choice(nums)
        specs.append({'api': 'eval', 'names': 'same', 'prog': ['block', [['assign', x, ['num', str(r.choice([7, 10, 0]))]], ['num', '2']]], 'ret': 'num', 'rebinds': x})
        specs.append({'api': 'eval', 'names': 'same', 'prog': ['block', [['short', x, '+=', ['num', '1']], ['name', x]]], 'ret': 'num', 'rebinds': x})
    else:
        specs.append({'api': 'eval', 'names': 'same', 'prog': ['block', [['assign', 'nn', ['num', '5']], ['num', '2']]], 'ret': 'num', 'rebinds': 'nn'})
    if lists:
        l = r.choice(lists)
        specs.append({'api': 'eval', 'names': 'same', 'prog': ['block', [['call', 'push', [['name', l], ['num', '9']], 'plain'], ['num', '1']]], 'ret': 'num', 'mutates': l})
    r.shuffle(specs)
    return specs
