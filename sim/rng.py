"""One integer decides everything: every stream is derived from (master seed, property, run, label)."""
import hashlib
import random as _random

RealRandom = _random.Random  # the class is never patched; only module-level functions are (seams.py)


def h(*parts) -> int:
    m = hashlib.sha256()
    for p in parts:
        m.update(repr(p).encode('utf-8', 'surrogatepass'))
        m.update(b'\x00')
    return int.from_bytes(m.digest()[:8], 'big')


def run_seed(master: int, prop: str, i: int) -> int:
    return h('run', int(master), prop, int(i))


def stream(seed: int, label: str) -> RealRandom:
    return RealRandom(h('stream', int(seed), label))


class Streams:
    """Named independent PRNG streams of one run: a draw for one purpose never shifts another."""

    def __init__(self, seed: int):
        self.seed = int(seed)
        self._s = {}

    def __getitem__(self, label: str) -> RealRandom:
        r = self._s.get(label)
        if r is None:
            r = self._s[label] = stream(self.seed, label)
        return r


def weighted(r, pairs):
    """pairs: [(item, weight)], deterministic order."""
    total = sum(w for _, w in pairs)
    x = r.random() * total
    acc = 0.0
    for item, w in pairs:
        acc += w
        if x < acc:
            return item
    return pairs[-1][0]
